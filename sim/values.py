"""Encoding of yarel values exactly as the runner's typed event channel encodes them."""
import struct


def num(n):
    return {"n": "%016x" % struct.unpack("<Q", struct.pack("<d", float(n)))[0]}


def unnum(j):
    return struct.unpack("<d", struct.pack("<Q", int(j["n"], 16)))[0]


def s(text):
    return {"s": text}


def b(v):
    return {"b": bool(v)}


def cls(name):
    return {"o": "class:" + name}


def inst(name):
    return {"o": "instance:" + name}


def tup(*xs):
    return {"t": list(xs)}


def vec(*xs):
    return {"v": list(xs)}


WILD = {"wild": True}


def anyof(*xs):
    """Matches any of the given encodings (used where the property leaves the outcome open)."""
    return {"any": list(xs)}


def match(e, a):
    """Expected-vs-actual comparison with {"any": [...]} wildcards on the expected side."""
    if isinstance(e, dict) and "wild" in e:
        return True
    if isinstance(e, dict) and "any" in e:
        return any(match(x, a) for x in e["any"])
    if isinstance(e, list):
        return isinstance(a, list) and len(e) == len(a) and all(match(x, y) for x, y in zip(e, a))
    if isinstance(e, dict):
        if not isinstance(a, dict) or set(e) != set(a):
            return False
        return all(match(e[k], a[k]) for k in e)
    return e == a


def first_diff(exp, act):
    n = max(len(exp), len(act))
    for i in range(n):
        e = exp[i] if i < len(exp) else "<end of expected history>"
        a = act[i] if i < len(act) else "<end of actual history>"
        if i >= len(exp) or i >= len(act) or not match(e, a):
            return i, e, a
    return None


ERROR_KINDS = ["AttributeError", "ImportError", "IndexError", "NameError", "RuntimeError", "TypeError", "ValueError"]
