"""Seeded PRNG for the simulator: splitmix64. Every choice in a run derives from one integer."""
MASK = (1 << 64) - 1


def mix64(z):
    z = (z + 0x9E3779B97F4A7C15) & MASK
    z = ((z ^ (z >> 30)) * 0xBF58476D1CE4E5B9) & MASK
    z = ((z ^ (z >> 27)) * 0x94D049BB133111EB) & MASK
    return z ^ (z >> 31)


def derive(*parts):
    """Derive a 64-bit seed from integers/strings (order-sensitive, process-independent)."""
    h = 0x243F6A8885A308D3
    for p in parts:
        if isinstance(p, str):
            for b in p.encode():
                h = mix64(h ^ b)
            h = mix64(h ^ 0xFF)
        else:
            h = mix64(h ^ (int(p) & MASK))
            h = mix64(h ^ ((int(p) >> 64) & MASK))
    return h


class Rng:
    def __init__(self, seed):
        self.s = mix64(seed & MASK)

    def next(self):
        self.s = (self.s + 0x9E3779B97F4A7C15) & MASK
        z = self.s
        z = ((z ^ (z >> 30)) * 0xBF58476D1CE4E5B9) & MASK
        z = ((z ^ (z >> 27)) * 0x94D049BB133111EB) & MASK
        return z ^ (z >> 31)

    def below(self, n):
        return self.next() % n if n > 0 else 0

    def range(self, lo, hi):
        """inclusive"""
        return lo + self.below(hi - lo + 1)

    def chance(self, p):
        return (self.next() % 1000000) < int(p * 1000000)

    def choice(self, xs):
        return xs[self.below(len(xs))]

    def weighted(self, pairs):
        """pairs: [(weight, value)]"""
        total = sum(w for w, _ in pairs)
        x = self.below(total)
        for w, v in pairs:
            if x < w:
                return v
            x -= w
        return pairs[-1][1]

    def shuffle(self, xs):
        xs = list(xs)
        for i in range(len(xs) - 1, 0, -1):
            j = self.below(i + 1)
            xs[i], xs[j] = xs[j], xs[i]
        return xs

    def subset(self, xs, p):
        return [x for x in xs if self.chance(p)]

    def fork(self, *parts):
        return Rng(derive(self.next(), *parts))
