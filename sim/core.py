"""Orchestrator: seeded search over scenarios, known-finding handling, minimisation, replay, evidence."""
import hashlib
import importlib
import json
import multiprocessing
import os
import sys
import time
import traceback

from . import build
from .prng import derive
from .runner import Runner

ROOT = build.ROOT
OUT = os.environ.get("VERIF_OUT_DIR") or ROOT      # where evidence/ and replays/ are written (scratch for tool runs)
DEFAULT_SEED = 20260924
PROPS = {"C01": "c01", "C08": "c08", "C09": "c09", "C10": "c10", "C12": "c12", "C14": "c14", "C15": "c15",
         "C16": "c16"}


def load_prop(pid):
    if pid not in PROPS:
        raise SystemExit("unknown property %s" % pid)
    mod = importlib.import_module("sim.props." + PROPS[pid])
    return mod.PROP


def stable_hash(obj):
    return int.from_bytes(hashlib.blake2b(json.dumps(obj, sort_keys=True, separators=(",", ":")).encode(),
                                          digest_size=8).digest(), "big")


class Stats(dict):
    """Counter with sum-merge; keys starting with 'max:' merge by max."""

    def inc(self, key, n=1):
        self[key] = self.get(key, 0) + n

    def max(self, key, v):
        key = "max:" + key
        if v > self.get(key, -(1 << 62)):
            self[key] = v

    def merge(self, other):
        for k, v in other.items():
            if k.startswith("max:"):
                if v > self.get(k, -(1 << 62)):
                    self[k] = v
            else:
                self[k] = self.get(k, 0) + v


class Ctx:
    """What a property's check() uses to execute scenarios."""

    def __init__(self, tier, timeout=30.0):
        self.tier = tier
        self.timeout = timeout
        self.runners = {}
        self.executions = 0
        self.unconfirmed = []
        self.stats = Stats()
        self.digest = 0            # order-independent digest of every (config, scenario, history) executed
        self.want_digest = bool(os.environ.get("VERIF_DIGEST"))

    def _runner(self, config):
        r = self.runners.get(config)
        if r is None:
            r = Runner(config)
            self.runners[config] = r
        return r

    def run(self, config, scenario, timeout=None):
        self.executions += 1
        r = self._runner(config)
        t = timeout or self.timeout
        if config.endswith("@memcheck"):
            t *= 20
        h = r.run(scenario, t)
        if "crash" in h or "hang" in h:
            # re-run alone in a fresh process before it is believed
            r.stop()
            h2 = r.run(scenario, t)
            if ("crash" in h2) or ("hang" in h2):
                h2["confirmed"] = True
                r.stop()
                return h2
            self.unconfirmed.append({"config": config, "first": h, "run": scenario.get("run")})
            self.stats.inc("unconfirmed_anomalies")
            return h2
        if "harness_error" in h:
            raise HarnessError(h["harness_error"])
        if self.want_digest:
            import re
            text = re.sub(r"0x[0-9a-fA-F]+", "ADDR", json.dumps(h, sort_keys=True))     # object addresses in error messages
            self.digest = (self.digest + stable_hash([config, scenario.get("programs"), scenario.get("tape"),
                                                      scenario.get("faults"), scenario.get("config"), text])) & ((1 << 64) - 1)
        return h

    def close(self):
        for r in self.runners.values():
            r.stop()
        self.runners = {}


class HarnessError(Exception):
    pass


def process_outcome(h):
    """Process-level violation class of a history, or None."""
    if "crash" in h:
        if h["crash"].startswith("memcheck:"):
            return ("invalid-memory-access", h["crash"])
        return ("crash", h["crash"])
    if "hang" in h:
        return ("hang", "scenario did not finish within the watchdog limit")
    for i, p in enumerate(h.get("programs", [])):
        out = p.get("outcome", {})
        if "panic" in out:
            return ("panic", "program %d panicked: %s" % (i, out["panic"]))
    return None


# ---------------------------------------------------------------------------------------------
# worker


_STOP = None


def _init_worker(flag):
    global _STOP
    _STOP = flag


def _worker(args):
    pid, tier, seed, w, nworkers, n, deadline, timeout = args
    stop_flag = _STOP
    sys.setrecursionlimit(10000)
    prop = load_prop(pid)
    ctx = Ctx(tier, timeout)
    stats = Stats()
    keys = set()
    violations = []
    samples = []
    cases = 0
    err = None
    invalid = 0
    invalid_example = None
    try:
        idx = w
        while idx < n:
            if stop_flag.value or time.time() > deadline:
                if time.time() > deadline:
                    stats.inc("stopped_by_wall_clock")
                break
            sc = prop.generate(seed, idx, tier)
            res = prop.check(sc, ctx)
            cases += 1
            if res.get("invalid") is not None:
                # the generator produced a case its own renderer / model rejects: a defect of the harness, never silently "ok"
                invalid += 1
                if invalid_example is None:
                    invalid_example = str(res["invalid"])[:300]
            stats.merge(res.get("stats", {}))
            if res.get("extra_keys") is not None:
                keys |= res["extra_keys"]
            elif res.get("nontrivial"):
                keys.add(res.get("key", stable_hash(sc.get("ir", sc.get("programs")))))
            for t in res.get("taints", ()):
                stats.inc("tainted:" + t)
            if len(samples) < 2 and res.get("sample") is not None and not res.get("violation"):
                samples.append(res["sample"])
            if res.get("violation"):
                violations.append({"idx": idx, "violation": res["violation"], "scenario": res.get("scenario", sc)})
                stop_flag.value = 1
                if len(violations) >= 2:
                    break
            idx += nworkers
    except Exception:
        err = traceback.format_exc()
    finally:
        ctx.close()
    stats.merge(ctx.stats)
    if err is None and invalid > max(3, cases // 50):
        err = "%d of %d generated cases were rejected by the property's own renderer/model, e.g.: %s" % (invalid, cases, invalid_example)
    if invalid:
        stats.inc("invalid_cases", invalid)
    return {"stats": dict(stats), "keys": keys, "violations": violations, "samples": samples, "cases": cases,
            "executions": ctx.executions, "unconfirmed": ctx.unconfirmed, "error": err, "digest": ctx.digest}


# ---------------------------------------------------------------------------------------------
# minimisation


def minimise(prop, scenario, violation, ctx, budget_s=90.0, max_attempts=600):
    """Greedy delta debugging over the property's own shrink candidates, keeping the violation class."""
    t0 = time.time()
    attempts = 0
    saved_timeout = ctx.timeout
    ctx.timeout = min(ctx.timeout, 10.0)      # shrink candidates that hang must not eat the budget
    cur, curv = scenario, violation
    progress = True
    while progress and time.time() - t0 < budget_s and attempts < max_attempts:
        progress = False
        for cand in prop.shrink(cur):
            if time.time() - t0 > budget_s or attempts >= max_attempts:
                break
            attempts += 1
            try:
                res = prop.check(cand, ctx)
            except HarnessError:
                raise
            except Exception:
                continue
            v = res.get("violation")
            if v and v.get("class") == curv.get("class"):
                cur, curv = res.get("scenario", cand), v
                progress = True
                break
    ctx.timeout = saved_timeout
    return cur, curv, attempts


def size_of(scenario):
    return len(json.dumps(scenario.get("ir", scenario.get("programs", ""))))


# ---------------------------------------------------------------------------------------------
# known findings


def load_findings(pid):
    path = os.path.join(ROOT, "known_findings.json")
    if not os.path.exists(path):
        return []
    with open(path) as f:
        data = json.load(f)
    return [e for e in data.get("findings", []) if e.get("property") == pid]


def run_findings(prop, ctx, seed):
    """Returns (known_lines, violations) for the pinned scenarios of this property."""
    lines = []
    violations = []
    notes = []
    for e in load_findings(prop.ID):
        with open(os.path.join(ROOT, e["scenario"])) as f:
            sc = json.load(f)
        res = prop.check(sc, ctx)
        v = res.get("violation")
        if e.get("status") == "open":
            if v:
                lines.append("KNOWN-FINDING: property=%s %s: %s" % (prop.ID, e["id"], e["title"]))
            else:
                notes.append("note: open finding %s no longer reproduces (pinned scenario passes)" % e["id"])
        else:
            if v:
                v = dict(v)
                v["msg"] = "regression of fixed finding %s (%s): %s" % (e["id"], e.get("commit", "?"), v.get("msg"))
                violations.append({"idx": "finding-" + e["id"], "violation": v, "scenario": res.get("scenario", sc)})
    return lines, violations, notes


# ---------------------------------------------------------------------------------------------
# replay files / evidence


def write_replay(prop, seed, tag, scenario, violation, extra=None):
    d = os.path.join(OUT, "replays", prop.ID)
    os.makedirs(d, exist_ok=True)
    path = os.path.join(d, "%s-%s.json" % (seed, tag))
    doc = dict(scenario)
    doc["property"] = prop.ID
    doc["seed"] = seed
    doc["violation"] = violation
    if extra:
        doc.update(extra)
    with open(path, "w") as f:
        json.dump(doc, f, indent=1, sort_keys=True)
    return path


def write_evidence(prop, tier, seed, wall, coverage, nviol, assumptions):
    os.makedirs(os.path.join(OUT, "evidence"), exist_ok=True)
    doc = {"property_id": prop.ID, "tier": tier, "seed": seed, "level": prop.LEVEL, "coverage": coverage,
           "assumptions": assumptions, "wall_s": round(wall, 2), "violations": nviol}
    path = os.path.join(OUT, "evidence", "%s.json" % prop.ID)
    tmp = path + ".tmp"
    with open(tmp, "w") as f:
        json.dump(doc, f, indent=1, sort_keys=True)
    os.replace(tmp, path)


# ---------------------------------------------------------------------------------------------
# entry points


def do_check(prop, tier, seed, nworkers, runs_override=None):
    t0 = time.time()
    n = runs_override if runs_override is not None else prop.plan(tier)
    wall_cap = prop.wall_cap(tier) if hasattr(prop, "wall_cap") else (240 if tier == "quick" else 3600)
    deadline = t0 + wall_cap
    timeout = getattr(prop, "TIMEOUT", 30.0)
    print("property=%s tier=%s seed=%d cases=%d workers=%d configs=%s" % (
        prop.ID, tier, seed, n, nworkers, ",".join(prop.configs(tier))))
    sys.stdout.flush()

    ctx = Ctx(tier, timeout)
    known_lines, violations, notes = run_findings(prop, ctx, seed)
    for line in known_lines + notes:
        print(line)
    sys.stdout.flush()

    mp = multiprocessing.get_context("fork")
    stop_flag = mp.Value("i", 0)
    args = [(prop.ID, tier, seed, w, nworkers, n, deadline, timeout) for w in range(nworkers)]
    with mp.Pool(nworkers, initializer=_init_worker, initargs=(stop_flag,)) as pool:
        results = pool.map(_worker, args, chunksize=1)
    stats = Stats()
    keys = set()
    samples = []
    cases = 0
    executions = ctx.executions
    unconfirmed = []
    digest = 0
    for r in results:
        digest = (digest + r.get("digest", 0)) & ((1 << 64) - 1)
        if r["error"]:
            sys.stderr.write(r["error"])
            print("HARNESS-ERROR: worker failed; see stderr")
            ctx.close()
            return 2
        stats.merge(r["stats"])
        keys |= r["keys"]
        samples += r["samples"]
        cases += r["cases"]
        executions += r["executions"]
        unconfirmed += r["unconfirmed"]
        violations += r["violations"]
    violations.sort(key=lambda v: (isinstance(v["idx"], str), v["idx"] if not isinstance(v["idx"], str) else 0))

    # minimise and persist (at most one per violation class, at most 3)
    reported = []
    seen_classes = set()
    for v in violations:
        cls = v["violation"].get("class")
        if cls in seen_classes or len(reported) >= 3:
            continue
        seen_classes.add(cls)
        before = size_of(v["scenario"])
        try:
            sc, vv, attempts = minimise(prop, v["scenario"], v["violation"], ctx)
        except HarnessError as e:
            print("HARNESS-ERROR: %s" % e)
            ctx.close()
            return 2
        # replay the minimised scenario once more with fresh runner processes: it must fail the same way
        ctx.close()
        res = prop.check(sc, ctx)
        confirmed = bool(res.get("violation")) and res["violation"].get("class") == vv.get("class")
        if not confirmed:
            sc, vv = v["scenario"], v["violation"]
            res = prop.check(sc, ctx)
            confirmed = bool(res.get("violation"))
        path = write_replay(prop, seed, str(v["idx"]), sc, vv,
                            {"minimisation": {"attempts": attempts, "size_before": before, "size_after": size_of(sc)},
                             "replay_confirmed": confirmed})
        reported.append((path, vv, confirmed))
    ctx.close()

    wall = time.time() - t0
    cov = {
        "evaluations": executions,
        "cases": cases,
        "distinct_nontrivial": len(keys),
        "rule": prop.RULE,
        "samples": samples[:3] if samples else [{"note": "no sample recorded"}],
        "exhaustive": False,
        "executions_per_hour": int(executions / wall * 3600) if wall > 0 else 0,
        "cases_per_hour": int(cases / wall * 3600) if wall > 0 else 0,
        "workers": nworkers,
        "configs": prop.configs(tier),
        "components": prop.COMPONENTS,
        "counters": {k: stats[k] for k in sorted(stats)},
        "known_findings_reported": known_lines,
        "unconfirmed_anomalies": unconfirmed[:5],
    }
    if hasattr(prop, "summarize"):
        cov.update(prop.summarize(stats, tier))
    write_evidence(prop, tier, seed, wall, cov, len(reported), prop.ASSUMPTIONS)

    for u in unconfirmed[:5]:
        print("WARNING: anomaly that did not reproduce when re-run alone: %s" % json.dumps(u)[:300])
    print("cases=%d executions=%d distinct_nontrivial=%d wall=%.1fs" % (cases, executions, len(keys), wall))
    if os.environ.get("VERIF_DIGEST"):
        print("digest=%016x stats=%016x" % (digest, stable_hash({k: stats[k] for k in sorted(stats) if k != "stopped_by_wall_clock"})))
    if reported:
        for path, vv, confirmed in reported:
            print("violation class=%s: %s%s" % (vv.get("class"), vv.get("msg"), "" if confirmed else "  [replay not confirmed]"))
            print("VIOLATION property=%s replay=%s" % (prop.ID, path))
        return 1
    print("OK property=%s held on everything explored" % prop.ID)
    return 0


def do_replay(prop, tier, path):
    with open(path) as f:
        sc = json.load(f)
    ctx = Ctx(tier, getattr(prop, "TIMEOUT", 30.0))
    try:
        res = prop.check(sc, ctx)
    finally:
        ctx.close()
    v = res.get("violation")
    if v:
        print("violation class=%s: %s" % (v.get("class"), v.get("msg")))
        if v.get("detail"):
            print(json.dumps(v["detail"], indent=1)[:6000])
        print("VIOLATION property=%s replay=%s" % (prop.ID, path))
        return 1
    print("replay passes: property=%s held on %s" % (prop.ID, path))
    return 0


def main(argv):
    import argparse
    ap = argparse.ArgumentParser(prog="check")
    ap.add_argument("prop")
    ap.add_argument("--tier", default=os.environ.get("VERIF_TIER") or "quick", choices=["quick", "thorough"])
    ap.add_argument("--replay")
    ap.add_argument("--runs", type=int)
    ap.add_argument("--workers", type=int, default=int(os.environ.get("VERIF_WORKERS", "0")) or min(16, os.cpu_count() or 1))
    ap.add_argument("--no-build", action="store_true")
    a = ap.parse_args(argv)
    sys.setrecursionlimit(10000)
    try:
        seed = int(os.environ.get("VERIF_SEED", "") or DEFAULT_SEED)
    except ValueError:
        seed = derive(os.environ.get("VERIF_SEED")) % (1 << 31)
    prop = load_prop(a.prop)
    try:
        if not a.no_build:
            build.ensure(prop.configs(a.tier))
    except build.BuildError as e:
        print("HARNESS-ERROR: %s" % e)
        return 2
    try:
        if a.replay:
            return do_replay(prop, a.tier, a.replay)
        return do_check(prop, a.tier, seed, a.workers, a.runs)
    except HarnessError as e:
        print("HARNESS-ERROR: %s" % e)
        return 2
