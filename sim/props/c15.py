"""C15 - an interpreter can be reused: failed runs leave no residue.

A scenario is a *session history* on ONE Vm: snippets (definitions, statements that use earlier definitions,
try/finally and try/catch probes, imports, non-compiling snippets), crash points chosen by the simulator
(a host-native fault point fails at a PRNG-chosen dynamic occurrence: at top level, d calls deep, inside a method,
inside a fiber / a fiber called by a fiber, inside try/finally, inside an imported module's body, or the run dies
between a class's declaration and its definition), and `Vm::reset()` as one more generated operation ("dirty restart":
globals are the durable state, nothing else may survive). Oracle: a session reference model + a model-free
metamorphic check: the suffix after the last reset, replayed on a newly created interpreter, must give the same
per-snippet histories.
"""
import json

from ..prng import Rng, derive
from ..values import num, s, cls, first_diff, ERROR_KINDS, WILD
from ..core import process_outcome, Stats, stable_hash

import os
MC_EVERY = int(os.environ.get("VERIF_MEMCHECK_EVERY", "64"))      # exploration knob: 1 = every case also runs under valgrind

NG = 4
BAD = [
    "var = ;",
    "fn f( { }",
    'print(("ev", 1);',
    "class { }",
    "fn okf() { return 1; } fn bad( {",
    'var s = "abc;',
    "return 5;",
    "g0 = 999; var = ;",
    "fn outer() { fn inner() { return 1; } var = 3; }",
    "g1 = 999; #[derive(Object)] class Q { fn m(self) { return ; } } class { }",
]


# built-in names a user may rebind (none of them is used by the harness' own snippets); value = what a fresh interpreter binds
SHADOWABLE = [("clock", {"o": "native"}), ("Range", cls("Range")), ("HashMap", cls("HashMap")), ("Nil", cls("Nil")), ("Bool", cls("Boolean")),
              ("Func", cls("Func")), ("Tuple", cls("Tuple")), ("Method", cls("Method")),
              # names the core library (not the interpreter) defines: a reset must bring their original bindings back as well
              ("ValueError", cls("ValueError")), ("IndexError", cls("IndexError")), ("ImportError", cls("ImportError")),
              ("AttributeError", cls("AttributeError"))]


# built-in string builders that fail after part of the result has been assembled: (expression, error class, message)
HALFSTR = [('String.from_code_points([72, 105, nil])', "TypeError", "Expected a number but found 'nil'."),
           ('String.from_code_points([128578, 1114112])', "ValueError", "Expected a valid Unicode code point but found '1114112'."),
           ('String.from_utf8([72, 105, 300])', "ValueError", "Expected a positive integer less than 256 but found '300'."),
           ('String.from_utf8([72, 105, 255])', "ValueError", "Invalid Unicode encountered at byte 255 with index 2."),
           ('String.from_ascii([72, 105, "x"])', "TypeError", "Expected a number but found 'x'."),
           ('"Hi" + "there" + nil', "TypeError", "Binary operands must be two numbers or two strings."),
           ('"Hi,there".replace(",", nil)', "TypeError", "Expected a string but found 'nil'."),
           ('"H${1}i${nil.missing}there"', "AttributeError", "Undefined property 'missing'.")]


SMREG = "var hooks = [];\n"


NVERSIONS = 8


def module_source(m, site, version=0):
    # the module hands a callback to an already loaded module (the registry) BEFORE the point where its body may fail.
    # The simulated file system serves a different version of the file at every read (the file was edited meanwhile): what an
    # import after a reset loads is what the loader serves then, not what an earlier load compiled
    return ('print(("ev", "load", "sm%d", %d));\nvar mv = %d;\nfn bump() { mv = mv + 1; return mv; }\n'
            'import "smreg";\nsmreg.hooks.push(bump);\n'
            'print(("chk", "%s"));\nprint(("ev", "loaded", "sm%d"));\n' % (m, version, 1 + 1000 * version, site, m))


class Gen:
    def __init__(self, rng):
        self.r = rng
        self.sites = 0
        self.nid = 0
        self.nmods = 0
        self.mod_sites = {}

    def site(self):
        self.sites += 1
        return "s%d" % self.sites

    def id(self):
        self.nid += 1
        return self.nid

    def snippet(self, weights):
        r = self.r
        out = []
        for _ in range(r.range(1, 4)):
            kind = r.weighted(weights)
            g = r.below(NG)
            k = r.below(3)
            if kind == "set":
                out.append(["set", g, r.below(50)])
            elif kind == "inc":
                out.append(["inc", g])
            elif kind == "assign":
                out.append(["assign", g, r.below(50)])
            elif kind == "chk":
                out.append(["chk", self.site()])
            elif kind == "probe":
                out.append(["probe", self.id()])
            elif kind == "call":
                out.append(["call", r.range(1, 4), g, self.site(), self.id()])
            elif kind == "tryfin":
                out.append(["tryfin", self.id(), self.site()])
            elif kind == "trycatch":
                out.append(["trycatch", self.id()])
            elif kind == "fiber":
                out.append(["fiber", g, self.site(), self.site(), self.id()])
            elif kind == "fiber2":
                out.append(["fiber2", g, self.site(), self.id()])
            elif kind == "method":
                out.append(["method", g, self.site(), self.id()])
            elif kind == "classcrash":
                out.append(["classcrash", self.id(), r.below(2)])
            elif kind == "deffn":
                out.append(["deffn", k])
            elif kind == "callfn":
                out.append(["callfn", k, self.id()])
            elif kind == "defclass":
                out.append(["defclass", k])
            elif kind == "useclass":
                out.append(["useclass", k, self.id()])
            elif kind == "deffiber":
                out.append(["deffiber", k])
            elif kind == "resume":
                out.append(["resume", k, self.id()])
            elif kind == "import":
                m = r.below(3)
                if m not in self.mod_sites:
                    self.mod_sites[m] = self.site()
                out.append(["import", m])
            elif kind == "modcall":
                out.append(["modcall", r.below(3), self.id()])
            elif kind == "throw":
                out.append(["throw", r.range(0, 3), self.id(), r.choice(["plain", "fin", "fiber"])])
            elif kind == "poke":
                out.append(["poke", self.id()])
            elif kind == "corelib":
                out.append(["corelib", self.id()])
            elif kind == "shadow":
                out.append(["shadow", r.below(len(SHADOWABLE)), r.range(100, 199)])
            elif kind == "useshadow":
                out.append(["useshadow", r.below(len(SHADOWABLE)), self.id()])
            elif kind == "capcrash":
                out.append(["capcrash", k, self.site(), self.id()])
            elif kind == "callcap":
                out.append(["callcap", k, self.id()])
            elif kind == "callhook":
                out.append(["callhook", r.below(4), self.id()])
            elif kind == "manyranges":
                out.append(["manyranges", self.id()])
            elif kind == "overflow":
                out.append(["overflow", self.id()])
            elif kind == "alias":
                out.append(["alias", k])
            elif kind == "usealias":
                out.append(["usealias", k, self.id()])
            elif kind == "capcrash2":
                out.append(["capcrash2", k, self.site(), self.id()])
            elif kind == "callcap2":
                out.append(["callcap2", k, self.id()])
            elif kind == "deepchain":
                out.append(["deepchain", k, self.id()])
            elif kind == "probechain":
                out.append(["probechain", k, self.id()])
            elif kind == "throwbig":
                out.append(["throwbig", k, self.id()])
            elif kind == "showbig":
                out.append(["showbig", k, self.id()])
            elif kind == "halfstr":
                out.append(["halfstr", r.below(len(HALFSTR)), r.below(3), self.id()])
            elif kind == "strbuild":
                out.append(["strbuild", self.id(), r.below(10)])
            elif kind == "setrange":
                out.append(["setrange", k])
            elif kind == "cmprange":
                out.append(["cmprange", k, self.id()])
        return out


KINDS_W = [("set", 10), ("inc", 10), ("assign", 6), ("chk", 12), ("probe", 10), ("call", 12), ("tryfin", 8), ("trycatch", 6),
           ("fiber", 6), ("fiber2", 4), ("method", 5), ("classcrash", 3), ("deffn", 5), ("callfn", 7), ("defclass", 4),
           ("useclass", 5), ("deffiber", 4), ("resume", 7), ("import", 6), ("modcall", 6), ("throw", 5), ("poke", 3), ("corelib", 6), ("shadow", 4), ("useshadow", 6), ("capcrash", 5), ("callcap", 7), ("callhook", 7), ("setrange", 3), ("cmprange", 5), ("manyranges", 2), ("overflow", 3), ("throwbig", 3), ("showbig", 5), ("alias", 3), ("usealias", 5), ("capcrash2", 4), ("callcap2", 6), ("deepchain", 2), ("probechain", 4), ("halfstr", 4), ("strbuild", 6)]


def gen_session(seed):
    rng = Rng(seed)
    g = Gen(rng)
    # swarm: each session enables a random subset of statement kinds
    enabled = [(w, k) for k, w in KINDS_W if rng.chance(0.7) or k in ("probe", "set")]
    n = rng.range(3, 22)
    p_bad = rng.choice([0.0, 0.08, 0.15])
    p_reset = rng.choice([0.0, 0.06, 0.12])
    p_exec = rng.choice([0.0, 0.0, 0.08, 0.15])
    p_pre = rng.choice([0.0, 0.0, 0.06, 0.12])
    ncompiled = [0]
    sess = []
    for _ in range(n):
        x = rng.below(1000)
        if x < p_bad * 1000:
            sess.append(["bad", rng.below(len(BAD))])
        elif x < (p_bad + p_reset) * 1000:
            if rng.chance(0.3):
                # the interpreter's range cache is full of other ranges when the reset happens; a range cached right after the
                # reset must still be found when an equal literal is evaluated a moment later
                k_ = rng.below(3)
                if len(sess) % 2 == 0:
                    # ... or exactly full, with the range that the next snippet asks for as its OLDEST entry: an interpreter that
                    # carries the cache across the reset finds it, keeps its old stamp, and evicts it a moment later
                    sess.append(["snip", [["setrange", k_], ["sevenranges", g.id()]]])
                else:
                    sess.append(["snip", [["manyranges", g.id()]]])
                sess.append(["reset"])
                sess.append(["snip", [["setrange", k_], ["cmprange", k_, g.id()], ["cmprange", k_, g.id()]]])
            elif rng.chance(0.4):
                # the program re-bound built-in names - one of the interpreter's, one of the core library's - before the reset;
                # right after it both must be the originals again
                i_, j_ = rng.below(8), 8 + rng.below(len(SHADOWABLE) - 8)
                # ... so must the iterator classes the core library's own methods look up by name (rebound as the LAST thing before
                # the reset: using `.map()` while they are rebound is not judged), and the value that ends a hand-driven iteration
                # must be as new as on a new interpreter (no field an earlier program stored on it)
                sess.append(["snip", [["shadow", i_, rng.range(100, 199)], ["shadow", j_, rng.range(100, 199)], ["useshadow", j_, g.id()],
                                      ["stopfield", g.id()], ["shadowiter"]]])
                sess.append(["reset"])
                sess.append(["snip", [["useshadow", j_, g.id()], ["useshadow", i_, g.id()], ["corelib", g.id()], ["stopfield", g.id()]]])
            else:
                sess.append(["reset"])
        elif (p_bad + p_reset + p_exec) * 1000 <= x < (p_bad + p_reset + p_exec + p_pre) * 1000:
            # the host compiles a small program now (and keeps the function) / executes one it compiled earlier - possibly before
            # failed snippets and resets that happened in between
            if ncompiled[0] == 0 or rng.chance(0.4):
                sess.append(["compile", g.id()])
                ncompiled[0] += 1
            else:
                sess.append(["runc", rng.below(ncompiled[0])])
        elif x < (p_bad + p_reset + p_exec) * 1000:
            # the host calls a script function through the embedding API, sometimes with the wrong number of arguments
            which = rng.choice(["pf", "hf"])
            arity = 0 if which == "pf" else 2
            sess.append(["exec", rng.below(3), which, arity if rng.chance(0.6) else rng.choice([n_ for n_ in (0, 1, 2, 3) if n_ != arity])])
        else:
            sess.append(["snip", g.snippet(enabled)])
    if rng.chance(1.0 / 30):
        # several runs in a row die at the bottom of 70 nested fibers; fibers must work as before afterwards
        at = rng.below(len(sess) + 1)
        extra = [["snip", [["deepchain", j_ % 3, g.id()]]] for j_ in range(4)]
        extra.append(["snip", [["fiber", 0, g.site(), g.site(), g.id()], ["probechain", 0, g.id()]]])
        sess[at:at] = extra
    if rng.chance(1.0 / 10):
        # a run that ENDS WELL with an exception still in flight: a fiber is left suspended by a yield inside a finally block that
        # runs because of an uncaught throw. The next run must start with no exception in flight all the same (its try/finally
        # statements complete normally). The fiber is never resumed, and no try statement follows in the same snippet (both
        # would be the open finding K-try-inside-pending-finally).
        at = rng.below(len(sess) + 1)
        sess[at:at] = [["snip", [["parkfin", g.id()]]], ["snip", [["tryfin", g.id(), g.site()], ["trycatch", g.id()]]]]
    # closing probe: all globals, a clean try/finally and a clean try/catch must behave
    sess.append(["snip", [["probe", g.id()], ["tryfin", g.id(), g.site()], ["trycatch", g.id()], ["corelib", g.id()], ["probe", g.id()]]])
    return {"session": sess, "sites": g.sites, "mod_sites": {str(k): v for k, v in g.mod_sites.items()}}


def render_snip(stmts, uid, stale=()):
    out = []
    for i, st in enumerate(stmts):
        k = st[0]
        u = "%d_%d" % (uid, i)
        if k == "set":
            out.append("var g%d = %d;" % (st[1], st[2]))
        elif k == "inc":
            out.append("g%d = g%d + 1;" % (st[1], st[1]))
        elif k == "assign":
            # plain assignment (no `var`): a NameError when the global was never declared, and then it must stay undeclared
            out.append("g%d = %d;" % (st[1], st[2]))
        elif k == "chk":
            out.append('print(("chk", "%s"));' % st[1])
        elif k == "probe":
            for g in range(NG):
                out.append('try { print(("ev", %d, %d, g%d)); } catch e { print(("ev", %d, %d, type(e))); }' % (
                    st[1], g, g, st[1], g))
        elif k == "call":
            d, g, site, eid = st[1], st[2], st[3], st[4]
            for lvl in range(d, 0, -1):
                if lvl == d:
                    body = 'print(("chk", "%s")); g%d = g%d + 10;' % (site, g, g)
                else:
                    body = "g%d = g%d + 1; c%s_%d();" % (g, g, u, lvl + 1)
                out.append("fn c%s_%d() { var loc = %d; %s return loc; }" % (u, lvl, lvl, body))
            out.append('print(("ev", %d, c%s_1()));' % (eid, u))
        elif k == "tryfin":
            out.append('try { print(("ev", %d, 1)); print(("chk", "%s")); } finally { print(("ev", %d, 2)); } print(("ev", %d, 3));' % (
                st[1], st[2], st[1], st[1]))
        elif k == "trycatch":
            out.append('try { throw "x%d"; } catch e { print(("ev", %d, e)); } print(("ev", %d, 9));' % (st[1], st[1], st[1]))
        elif k == "fiber":
            g, s1, s2, eid = st[1], st[2], st[3], st[4]
            out.append('var fb%s = Fiber.new(|| { g%d = g%d + 1; print(("chk", "%s")); Fiber.yield(5); g%d = g%d + 1; print(("chk", "%s")); return 6; });' % (
                u, g, g, s1, g, g, s2))
            out.append('print(("ev", %d, fb%s.call())); print(("ev", %d, fb%s.call()));' % (eid, u, eid, u))
        elif k == "fiber2":
            g, s1, eid = st[1], st[2], st[3]
            out.append('var fi%s = Fiber.new(|| { g%d = g%d + 1; print(("chk", "%s")); return 3; });' % (u, g, g, s1))
            out.append('var fo%s = Fiber.new(|| { var r = fi%s.call(); g%d = g%d + 1; return r + 1; });' % (u, u, g, g))
            out.append('print(("ev", %d, fo%s.call()));' % (eid, u))
        elif k == "method":
            g, site, eid = st[1], st[2], st[3]
            out.append('#[constructor(new)] class K%s { fn m(self) { print(("chk", "%s")); g%d = g%d + 100; return 7; } }' % (u, site, g, g))
            out.append('print(("ev", %d, K%s.new().m()));' % (eid, u))
        elif k == "classcrash":
            if st[2] == 0:
                out.append("#[derive(UndefinedBase%s)] class C%s { fn m(self) { return 1; } }" % (u, u))
            else:
                out.append("var nb%s = 5; #[derive(nb%s)] class C%s { fn m(self) { return 1; } }" % (u, u, u))
        elif k == "deffn":
            a = st[1] % NG
            out.append("fn pf%d() { g%d = g%d + 1; return %d; }" % (st[1], a, a, st[1] * 11))
            out.append('fn hf%d(a, b) { g%d = g%d + a + b; print(("ev", %d, a, b)); return a * b; }' % (st[1], a, a, 9000 + st[1]))
        elif k == "callfn":
            out.append('print(("ev", %d, pf%d()));' % (st[2], st[1]))
        elif k == "defclass":
            a = st[1] % NG
            out.append("#[constructor(new)] class Pc%d { fn m(self, x) { g%d = g%d + x; return x + 1; } #[static] fn s() { return %d; } }" % (
                st[1], a, a, st[1]))
        elif k == "useclass":
            out.append('var o%s = Pc%d.new(); print(("ev", %d, o%s.m(2), Pc%d.s()));' % (u, st[1], st[2], u, st[1]))
        elif k == "deffiber":
            a = st[1] % NG
            out.append("var pfb%d = Fiber.new(|| { var n = 0; while true { n = n + 1; g%d = g%d + 1; Fiber.yield(n); } });" % (st[1], a, a))
        elif k == "resume":
            out.append('print(("ev", %d, pfb%d.call()));' % (st[2], st[1]))
        elif k == "import":
            out.append('import "sm%d";' % st[1])
        elif k == "modcall":
            out.append('print(("ev", %d, sm%d.bump()));' % (st[2], st[1]))
        elif k == "throw":
            d, eid, how = st[1], st[2], st[3]
            inner = 'throw "u%d";' % eid
            if how == "fin":
                inner = 'try { throw "u%d"; } finally { print(("ev", %d, "fin")); }' % (eid, eid)
            for lvl in range(d, 0, -1):
                body = inner if lvl == d else "t%s_%d();" % (u, lvl + 1)
                out.append("fn t%s_%d() { %s }" % (u, lvl, body))
            call = "t%s_1();" % u if d > 0 else inner
            if how == "fiber":
                out.append("Fiber.new(|| { %s }).call();" % call)
            else:
                out.append(call)
        elif k == "shadow":
            out.append("var %s = %d;" % (SHADOWABLE[st[1]][0], st[2]))
        elif k == "useshadow":
            out.append('print(("ev", %d, %s));' % (st[2], SHADOWABLE[st[1]][0]))
        elif k == "capcrash":
            # a block-local variable captured by a closure that is stored in a global; the run may die while the
            # variable is still an open captured variable on the (then abandoned) top-level fiber's stack
            out.append("var pc%d = nil; { var cl = [%d]; pc%d = || { cl = [cl[0] + 1]; return cl[0]; }; print((\"chk\", \"%s\")); print((\"ev\", %d, pc%d())); }" % (
                st[1], 40 + st[1], st[1], st[2], st[3], st[1]))
        elif k == "callcap":
            out.append('print(("ev", %d, pc%d()));' % (st[2], st[1]))
        elif k == "callhook":
            # a callback a module body handed to the registry module - possibly a module whose body failed afterwards
            out.append('import "smreg"; if smreg.hooks.len() > %d { print(("ev", %d, smreg.hooks[%d]())); } else { print(("ev", %d, "nohook")); }' % (
                st[1], st[2], st[1], st[2]))
        elif k == "alias":
            # a built-in function kept under a name of the program's own: gone after a reset like every other global
            out.append("var al%d = type;" % st[1])
        elif k == "usealias":
            out.append('print(("ev", %d, al%d(1) == Num));' % (st[2], st[1]))
        elif k == "capcrash2":
            # as capcrash, but the captured variable belongs to a fiber that is WAITING for the fiber in which the run dies
            out.append("var pd%d = nil; var fo%s = Fiber.new(|| { var cl = [%d]; pd%d = || { cl = [cl[0] + 1]; return cl[0]; }; "
                       "var fi = Fiber.new(|| { print((\"chk\", \"%s\")); return 1; }); fi.call(); print((\"ev\", %d, pd%d())); return 0; }); fo%s.call();" % (
                           st[1], u, 60 + st[1], st[1], st[2], st[3], st[1], u))
        elif k == "callcap2":
            out.append('print(("ev", %d, pd%d()));' % (st[2], st[1]))
        elif k == "deepchain":
            # 70 fibers nested on one chain of callers (more than a fiber has frames); the innermost one throws
            out.append("var ch%d = []; fn nest%s(n) { if n == 0 { throw \"deep%d\"; } var f = Fiber.new(|| { return nest%s(n - 1); }); ch%d.push(f); return f.call(); } "
                       "print((\"ev\", %d, \"start\")); nest%s(70);" % (st[1], u, st[2], u, st[1], st[2], u))
        elif k == "probechain":
            out.append('{ var done = 0; for f in ch%d { if f.has_finished() { done = done + 1; } } print(("ev", %d, ch%d.len(), done)); }' % (st[1], st[2], st[1]))
        elif k == "halfstr":
            # a string builder fails half-way; caught (mode 0, 1) or ending the run (mode 2)
            if st[2] == 2:
                out.append('print(("ev", %d, "before")); %s;' % (st[3], HALFSTR[st[1]][0]))
            else:
                out.append('try { print(("ev", %d, %s)); } catch e { print(("ev", %d, type(e), e.context)); }' % (st[3], HALFSTR[st[1]][0], st[3]))
        elif k == "strbuild":
            # strings built in every way the interpreter has; whatever an earlier failed builder left behind must not show
            out.append('print(("ev", %d, "n = ${%d}", String.from(%d), "a" + "b${%d}", String.from_code_points([%d, 66]), "x${"y${%d}"}z", String.from_ascii([%d]), "%d,%d".replace(",", "-")));' % (
                st[1], st[2], st[2], st[2], 67 + st[2], st[2], 70 + st[2], st[2], st[2]))
        elif k == "throwbig":
            # a long container kept in a global is thrown and nobody catches it (the run's final report prints it)
            out.append("var big%d = [%s]; print((\"ev\", %d, big%d.len())); throw big%d;" % (st[1], ", ".join(str(1000 + j + st[1]) for j in range(90)), st[2], st[1], st[1]))
        elif k == "showbig":
            out.append('print(("ev", %d, "${big%d}".len(), "${(1, big%d)}".len(), big%d.len(), {(1, 2): big%d}.len()));' % (st[2], st[1], st[1], st[1], st[1]))
        elif k == "overflow":
            # recursion to the frame limit; the handler annotates the error object it caught (its own business: the next such
            # error must be a fresh one)
            out.append("fn rec%s(n) { return rec%s(n + 1) + 1; }" % (u, u))
            out.append('try { rec%s(0); } catch e { print(("ev", %d, type(e), e.context)); e.context = "seen before: " + e.context; e.note = %d; }' % (u, st[1], st[1]))
        elif k == "setrange":
            # a range kept in a global; at most three distinct ranges exist per session, so the interpreter's 8-entry range
            # cache never evicts and an equal range literal evaluated later is == to it (and finds it as a map key)
            out.append("var rg%d = %d..%d;" % (st[1], st[1] + 1, st[1] + 5))
        elif k == "cmprange":
            # (a throw-away range of its own first: one more distinct range for the interpreter's cache to cope with)
            out.append('var tr%s = 900..%d; print(("ev", %d, rg%d == %d..%d, {rg%d: 1}.has_key(%d..%d)));' % (
                u, 901 + st[2], st[2], st[1], st[1] + 1, st[1] + 5, st[1], st[1] + 1, st[1] + 5))
        elif k == "parkfin":
            out.append('var pk%s = Fiber.new(|| { try { throw "pk"; } finally { Fiber.yield(%d); } }); print(("ev", %d, pk%s.call()));' % (u, st[1], st[1], u))
        elif k == "sevenranges":
            # seven distinct ranges: together with one kept range the interpreter's range cache is exactly full
            out.append('var sr%s = 0; for q in [200..201, 200..202, 200..203, 200..204, 200..205, 200..206, 200..207] { sr%s = sr%s + 1; } print(("ev", %d, sr%s));' % (
                u, u, u, st[1], u))
        elif k == "manyranges":
            # ten distinct ranges at once: more than the interpreter's range cache holds
            out.append('var mr%s = 0; for q in [100..101, 100..102, 100..103, 100..104, 100..105, 100..106, 100..107, 100..108, 100..109, 100..110] { mr%s = mr%s + 1; } print(("ev", %d, mr%s));' % (
                u, u, u, st[1], u))
        elif k == "shadowiter":
            out.append("var MapIter = 7; var FilterIter = 8; var StopIter = 9;")
        elif k == "stopfield":
            out.append('var sit%s = [1].iter(); sit%s.next(); var sen%s = sit%s.next(); var srd%s = "has the field"; try { srd%s = sen%s.vmark; } catch sx%s { srd%s = type(sx%s); } '
                       'print(("ev", %d, srd%s)); sen%s.vmark = %d;' % (u, u, u, u, u, u, u, u, u, u, st[1], u, u, st[1]))
        elif k == "corelib":
            # names and classes the core library defines: present on a new interpreter, so present after every snippet and reset
            out.append('print(("ev", %d, [1, 2].iter().map(|x| { return x + 1; }).collect(), [1, 2, 3].iter().filter(|x| { return x != 2; }).collect(), '
                       'type(Error), Error.new(5).context, type(StopIter), type(RuntimeError), (1, 2).iter().reduce(|a, b| { return a + b; }, 0)));' % st[1])
        elif k == "poke":
            # touch every fiber object an earlier (possibly crashed) snippet left in a global: any outcome is
            # acceptable except a crash of the host
            for nm in stale:
                out.append('try { print(("ev", %d, "%s", %s.has_finished())); %s.call(); print(("ev", %d, "%s", "callable")); } catch e { print(("ev", %d, "%s", type(e))); }' % (
                    st[1], nm, nm, nm, st[1], nm, st[1], nm))
            out.append('print(("ev", %d, "poked"));' % st[1])
        else:
            raise ValueError(k)
    return "\n".join(out) + "\n"


class Crash(Exception):
    def __init__(self, needle):
        self.needle = needle


def stale_names(ir):
    """per snippet index: the one-shot fiber globals earlier snippets (since the last reset) may have left behind"""
    out = {}
    stale = []
    for i, item in enumerate(ir["session"]):
        if item[0] == "reset":
            stale = []
        elif item[0] == "snip":
            out[i] = stale[-4:]
            for j, stt in enumerate(item[1]):
                if stt[0] == "fiber":
                    stale.append("fb%d_%d" % (i, j))
                elif stt[0] == "fiber2":
                    stale += ["fi%d_%d" % (i, j), "fo%d_%d" % (i, j)]
    return out


def model(ir, faults):
    sess = ir["session"]
    stale_by_snippet = stale_names(ir)
    occ = {}
    fired = []
    probes = Stats()
    taint = set()
    outs = []
    st = {}
    snap = {}
    compiled = []         # what the host compiled and kept (survives resets: it is the host's, not the interpreter's)
    fsreads = {}          # reads of each module file so far: a property of the simulated file system, not of the interpreter
    fs_snap = {}

    def fresh():
        st.clear()
        st.update(G={}, funcs={}, classes={}, fibers={}, names=set(), mods={}, shadows={}, caps={}, oneshot=set(), hooks=[], ranges=set(), bigs=set(), aliases=set(), caps2={}, chains=set(), range_age={})

    fresh()

    def chk(site, where):
        o = occ.get(site, 0) + 1
        occ[site] = o
        kd = faults.get(site, {}).get(str(o))
        if kd:
            fired.append((site, o, kd))
            probes.inc("crash_at:" + where)
            probes.inc("fault_kind:" + kd)
            raise Crash("RuntimeError" if kd == "CompileError" else kd)

    def getg(g, where="top"):
        if g not in st["G"]:
            probes.inc("crash_at:nameerror_" + where)
            raise Crash("NameError")
        return st["G"][g]

    for si, item in enumerate(sess):
        if item[0] == "reset":
            fresh()
            snap.clear()
            snap.update(occ)
            fs_snap.clear()
            fs_snap.update(fsreads)
            probes.inc("resets")
            outs.append({"kind": "reset", "events": []})
            continue
        if item[0] == "bad":
            probes.inc("compile_errors")
            outs.append({"kind": "compile", "events": []})
            continue
        if item[0] == "compile":
            compiled.append(item[1])
            probes.inc("host_compiles_for_later")
            outs.append({"kind": "compiled", "events": []})
            continue
        if item[0] == "runc":
            probes.inc("host_runs_function_compiled_earlier")
            outs.append({"kind": "ok", "events": [[num(compiled[item[1]]), s("compiled-earlier")], [num(compiled[item[1]]), s("fin")]]})
            continue
        if item[0] == "exec":
            k_, which, nargs = item[1], item[2], item[3]
            if k_ not in st["funcs"]:
                outs.append({"kind": "nofn", "events": []})
                continue
            arity = 0 if which == "pf" else 2
            if nargs != arity:
                probes.inc("host_call_refused_for_argument_count")
                outs.append({"kind": "err", "events": [], "needle": "arguments", "errkind": "TypeError"})
                continue
            a_ = st["funcs"][k_]
            if a_ not in st["G"]:
                probes.inc("crash_at:nameerror_host_call")
                probes.inc("crashed_snippets")
                outs.append({"kind": "err", "events": [], "needle": "NameError"})
                continue
            probes.inc("host_calls")
            if which == "pf":
                st["G"][a_] += 1
                outs.append({"kind": "ok", "events": [], "value": str(k_ * 11)})
            else:
                st["G"][a_] += 7
                outs.append({"kind": "ok", "events": [[num(9000 + k_), num(3), num(4)]], "value": "12"})
            continue
        ev = []
        G = st["G"]
        try:
            for sj, stt in enumerate(item[1]):
                k = stt[0]
                if k == "set":
                    G[stt[1]] = stt[2]
                elif k == "inc":
                    G[stt[1]] = getg(stt[1]) + 1
                elif k == "assign":
                    getg(stt[1])
                    G[stt[1]] = stt[2]
                elif k == "chk":
                    chk(stt[1], "top")
                elif k == "probe":
                    for g in range(NG):
                        if g in G:
                            ev.append([num(stt[1]), num(g), num(G[g])])
                        else:
                            ev.append([num(stt[1]), num(g), cls("NameError")])
                elif k == "call":
                    d, g, site, eid = stt[1], stt[2], stt[3], stt[4]
                    for _lvl in range(1, d):
                        G[g] = getg(g, "callee") + 1
                    chk(site, "call_depth_%d" % d)
                    G[g] = getg(g, "callee") + 10
                    ev.append([num(eid), num(1)])
                elif k == "tryfin":
                    ev.append([num(stt[1]), num(1)])
                    try:
                        chk(stt[2], "try_finally")
                    finally:
                        ev.append([num(stt[1]), num(2)])
                    ev.append([num(stt[1]), num(3)])
                elif k == "trycatch":
                    ev.append([num(stt[1]), s("x%d" % stt[1])])
                    ev.append([num(stt[1]), num(9)])
                elif k == "fiber":
                    g, s1, s2, eid = stt[1], stt[2], stt[3], stt[4]
                    st["oneshot"].add("fb%d_%d" % (si, sj))
                    G[g] = getg(g, "fiber") + 1
                    chk(s1, "fiber")
                    ev.append([num(eid), num(5)])
                    G[g] = getg(g, "fiber") + 1
                    chk(s2, "fiber_resumed")
                    ev.append([num(eid), num(6)])
                elif k == "fiber2":
                    g, s1, eid = stt[1], stt[2], stt[3]
                    st["oneshot"].add("fi%d_%d" % (si, sj))
                    st["oneshot"].add("fo%d_%d" % (si, sj))
                    G[g] = getg(g, "nested_fiber") + 1
                    chk(s1, "nested_fiber")
                    G[g] = getg(g, "nested_fiber") + 1
                    ev.append([num(eid), num(4)])
                elif k == "method":
                    g, site, eid = stt[1], stt[2], stt[3]
                    chk(site, "method")
                    G[g] = getg(g, "method") + 100
                    ev.append([num(eid), num(7)])
                elif k == "classcrash":
                    probes.inc("crash_at:class_between_declare_and_define")
                    raise Crash("NameError" if stt[2] == 0 else "RuntimeError")
                elif k == "deffn":
                    st["funcs"][stt[1]] = stt[1] % NG
                elif k == "callfn":
                    if stt[1] not in st["funcs"]:
                        probes.inc("crash_at:nameerror_top")
                        raise Crash("NameError")
                    a = st["funcs"][stt[1]]
                    G[a] = getg(a, "callee") + 1
                    ev.append([num(stt[2]), num(stt[1] * 11)])
                elif k == "defclass":
                    st["classes"][stt[1]] = stt[1] % NG
                elif k == "useclass":
                    if stt[1] not in st["classes"]:
                        probes.inc("crash_at:nameerror_top")
                        raise Crash("NameError")
                    a = st["classes"][stt[1]]
                    G[a] = getg(a, "method") + 2
                    ev.append([num(stt[2]), num(3), num(stt[1])])
                elif k == "deffiber":
                    st["fibers"][stt[1]] = {"n": 0, "poisoned": False}
                elif k == "resume":
                    if stt[1] not in st["fibers"]:
                        probes.inc("crash_at:nameerror_top")
                        raise Crash("NameError")
                    f = st["fibers"][stt[1]]
                    if f["poisoned"]:
                        # it was on the chain of callers of a run that failed: abandoned, i.e. finished
                        probes.inc("abandoned_fiber_called_later")
                        raise Crash("RuntimeError")
                    a = stt[1] % NG
                    if a not in G:
                        f["poisoned"] = True
                    f["n"] += 1
                    G[a] = getg(a, "persistent_fiber") + 1
                    probes.inc("persistent_fiber_resumed_across_snippets")
                    ev.append([num(stt[2]), num(f["n"])])
                elif k == "import":
                    m = stt[1]
                    ms = st["mods"].setdefault(m, {"state": "unloaded", "mv": 0})
                    if ms["state"] == "failed":
                        taint.add("open:import-of-module-whose-body-failed")
                        raise Crash("ImportError")
                    if ms["state"] == "unloaded":
                        ms["state"] = "failed"     # until the body completes
                        version = min(fsreads.get(m, 0), NVERSIONS)
                        fsreads[m] = fsreads.get(m, 0) + 1
                        if version > 0:
                            probes.inc("module_file_changed_between_loads")
                        ev.append([s("load"), s("sm%d" % m), num(version)])
                        ms["mv"] = 1 + 1000 * version
                        st["hooks"].append(m)
                        chk(ir["mod_sites"][str(m)], "module_body")
                        ev.append([s("loaded"), s("sm%d" % m)])
                        ms["state"] = "loaded"
                        probes.inc("module_loads")
                    st["names"].add(m)
                elif k == "modcall":
                    m = stt[1]
                    if m not in st["names"]:
                        probes.inc("crash_at:nameerror_top")
                        raise Crash("NameError")
                    ms = st["mods"][m]
                    ms["mv"] += 1
                    ev.append([num(stt[2]), num(ms["mv"])])
                elif k == "throw":
                    d, eid, how = stt[1], stt[2], stt[3]
                    if how == "fin":
                        ev.append([num(eid), s("fin")])
                    probes.inc("crash_at:throw_%s_depth_%d" % (how, d))
                    raise Crash("u%d" % eid)
                elif k == "poke":
                    # every one-shot fiber an earlier snippet left behind has either run to completion or was on the
                    # chain of callers of a run that failed: in both cases it is finished and calling it is an error
                    for nm in stale_by_snippet.get(si, []):
                        if nm in st["oneshot"]:
                            probes.inc("stale_fiber_probed")
                            ev.append([num(stt[1]), s(nm), {"b": True}])
                            ev.append([num(stt[1]), s(nm), cls("RuntimeError")])
                        else:
                            ev.append([num(stt[1]), s(nm), cls("NameError")])
                    ev.append([num(stt[1]), s("poked")])
                elif k == "shadow":
                    st["shadows"][stt[1]] = stt[2]
                    probes.inc("builtin_name_rebound")
                elif k == "useshadow":
                    if stt[1] in st["shadows"]:
                        probes.inc("rebound_builtin_read_in_later_statement")
                        ev.append([num(stt[2]), num(st["shadows"][stt[1]])])
                    else:
                        ev.append([num(stt[2]), SHADOWABLE[stt[1]][1]])
                elif k == "capcrash":
                    cell = [40 + stt[1]]
                    st["caps"][stt[1]] = cell
                    try:
                        chk(stt[2], "captured_local_in_scope")
                    except Crash:
                        probes.inc("run_died_with_open_captured_variable")
                        raise
                    cell[0] += 1
                    ev.append([num(stt[3]), num(cell[0])])
                elif k == "callcap":
                    if stt[1] not in st["caps"]:
                        probes.inc("crash_at:nameerror_top")
                        raise Crash("NameError")
                    st["caps"][stt[1]][0] += 1
                    probes.inc("closure_from_earlier_snippet_called")
                    ev.append([num(stt[2]), num(st["caps"][stt[1]][0])])
                elif k == "callhook":
                    if stt[1] < len(st["hooks"]):
                        hm = st["hooks"][stt[1]]
                        ms = st["mods"][hm]
                        ms["mv"] += 1
                        probes.inc("callback_of_module_called:" + ms["state"])
                        ev.append([num(stt[2]), num(ms["mv"])])
                    else:
                        ev.append([num(stt[2]), s("nohook")])
                elif k == "alias":
                    st["aliases"].add(stt[1])
                elif k == "usealias":
                    if stt[1] not in st["aliases"]:
                        probes.inc("crash_at:nameerror_top")
                        raise Crash("NameError")
                    ev.append([num(stt[2]), {"b": True}])
                elif k == "capcrash2":
                    cell = [60 + stt[1]]
                    st["caps2"][stt[1]] = cell
                    try:
                        chk(stt[2], "captured_local_of_waiting_fiber")
                    except Crash:
                        probes.inc("run_died_in_callee_fiber_with_open_captured_variable_in_caller")
                        raise
                    cell[0] += 1
                    ev.append([num(stt[3]), num(cell[0])])
                elif k == "callcap2":
                    if stt[1] not in st["caps2"]:
                        probes.inc("crash_at:nameerror_top")
                        raise Crash("NameError")
                    st["caps2"][stt[1]][0] += 1
                    ev.append([num(stt[2]), num(st["caps2"][stt[1]][0])])
                elif k == "deepchain":
                    st["chains"].add(stt[1])
                    ev.append([num(stt[2]), s("start")])
                    probes.inc("crash_at:bottom_of_70_nested_fibers")
                    raise Crash("deep%d" % stt[2])
                elif k == "probechain":
                    if stt[1] not in st["chains"]:
                        probes.inc("crash_at:nameerror_top")
                        raise Crash("NameError")
                    ev.append([num(stt[2]), num(70), num(70)])
                elif k == "halfstr":
                    _, ecls, emsg = HALFSTR[stt[1]]
                    probes.inc("string_builder_failed_half_way")
                    if stt[2] == 2:
                        ev.append([num(stt[3]), s("before")])
                        probes.inc("crash_at:string_builder_half_way")
                        raise Crash(emsg)
                    ev.append([num(stt[3]), cls(ecls), s(emsg)])
                elif k == "strbuild":
                    n_ = stt[2]
                    ev.append([num(stt[1]), s("n = %d" % n_), s("%d" % n_), s("ab%d" % n_), s(chr(67 + n_) + "B"), s("xy%dz" % n_), s(chr(70 + n_)), s("%d-%d" % (n_, n_))])
                elif k == "throwbig":
                    st["bigs"].add(stt[1])
                    ev.append([num(stt[2]), num(90)])
                    probes.inc("crash_at:uncaught_long_container")
                    raise Crash("%d, %d, %d" % (1000 + stt[1], 1001 + stt[1], 1002 + stt[1]))
                elif k == "showbig":
                    if stt[1] not in st["bigs"]:
                        probes.inc("crash_at:nameerror_top")
                        raise Crash("NameError")
                    probes.inc("container_thrown_uncaught_earlier_printed")
                    text = "[" + ", ".join(str(1000 + j + stt[1]) for j in range(90)) + "]"
                    ev.append([num(stt[2]), num(len(text)), num(len(text) + 5), num(90), num(1)])
                elif k == "overflow":
                    probes.inc("frame_limit_reached_and_caught")
                    ev.append([num(stt[1]), cls("IndexError"), s("Stack overflow.")])
                elif k == "manyranges":
                    for k_ in st["range_age"]:
                        st["range_age"][k_] += 10
                    ev.append([num(stt[1]), num(10)])
                elif k == "parkfin":
                    probes.inc("run_ended_well_with_a_fiber_parked_in_a_finally_with_an_exception_in_flight")
                    ev.append([num(stt[1]), num(stt[1])])
                elif k == "sevenranges":
                    for k_ in st["range_age"]:
                        st["range_age"][k_] += 7
                    ev.append([num(stt[1]), num(7)])
                elif k == "setrange":
                    st["ranges"].add(stt[1])
                    for k_ in st["range_age"]:
                        st["range_age"][k_] += 1
                    # range_age[k] is an UPPER bound on the number of ranges the interpreter has cached since it cached this one.
                    # Evaluating the literal again may find the cached object (which then keeps its place in the eviction order -
                    # the cache does not refresh an entry it finds) or cache a new one: either way the old bound stays valid.
                    # Only a range this interpreter has never built (since it was created or reset) is certainly new.
                    if stt[1] not in st["range_age"]:
                        st["range_age"][stt[1]] = 0
                elif k == "cmprange":
                    if stt[1] not in st["ranges"]:
                        probes.inc("crash_at:nameerror_top")
                        raise Crash("NameError")
                    for k_ in st["range_age"]:
                        st["range_age"][k_] += 1 if k_ == stt[1] else 3          # the throw-away range (and, for the others, the two literals if they are not found)
                    if st["range_age"].get(stt[1], 99) <= 6:
                        # fewer distinct ranges have been created since this one than the cache holds: an equal literal is the same object
                        probes.inc("range_from_earlier_snippet_compared")
                        ev.append([num(stt[2]), {"b": True}, {"b": True}])
                    else:
                        probes.inc("range_comparison_after_cache_turnover_not_asserted")
                        ev.append([num(stt[2]), WILD, WILD])
                elif k == "shadowiter":
                    probes.inc("iterator_class_names_rebound_right_before_a_reset")
                    st["iter_shadowed"] = True
                elif k == "stopfield":
                    # the first end-of-iteration value an interpreter hands out (since it was created or reset) has no field of the
                    # program's; whether later ones are the same object is not judged
                    ev.append([num(stt[1]), WILD if st.get("stopmark") else cls("AttributeError")])
                    st["stopmark"] = True
                elif k == "corelib":
                    if st.get("iter_shadowed"):
                        # the core library's methods look `MapIter` / `FilterIter` / `StopIter` up in main's globals at call time:
                        # while the program has them rebound, `.map()` fails. No claimed property says otherwise (11.3, left alone);
                        # the generator never asks for it, and a shrink candidate that does is not judged
                        taint.add("core-library-resolves-iterator-classes-in-main")
                    probes.inc("core_library_used")
                    ev.append([num(stt[1]), {"v": [num(2), num(3)]}, {"v": [num(1), num(3)]}, cls("ErrorClass"), num(5),
                               cls("StopIterClass"), cls("RuntimeErrorClass"), num(3)])
                else:
                    raise ValueError(k)
            outs.append({"kind": "ok", "events": ev})
        except Crash as c:
            probes.inc("crashed_snippets")
            outs.append({"kind": "err", "events": ev, "needle": c.needle})
    return {"outs": outs, "fired": fired, "probes": probes, "taint": taint, "occ_at_last_reset": snap, "fsreads_at_last_reset": fs_snap}


def programs_of(ir):
    progs = []
    stale = stale_names(ir)
    for i, item in enumerate(ir["session"]):
        if item[0] == "reset":
            progs.append({"kind": "reset"})
        elif item[0] == "bad":
            progs.append({"kind": "snippet", "source": BAD[item[1]]})
        elif item[0] == "exec":
            progs.append({"kind": "exec", "name": "%s%d" % (item[2], item[1]), "args": [3, 4, 5][:item[3]]})
        elif item[0] == "compile":
            progs.append({"kind": "compile", "source": 'try { print(("ev", %d, "compiled-earlier")); } finally { print(("ev", %d, "fin")); }\n' % (item[1], item[1])})
        elif item[0] == "runc":
            progs.append({"kind": "run", "slot": item[1]})
        else:
            progs.append({"kind": "snippet", "source": render_snip(item[1], i, stale.get(i, []))})
    fs = {"sm%s" % m: {"source": module_source(int(m), site, NVERSIONS),
                       "reads": ["src:" + module_source(int(m), site, v_) for v_ in range(NVERSIONS)]} for m, site in ir["mod_sites"].items()}
    fs["smreg"] = {"source": SMREG, "reads": []}
    return progs, fs


def compare(exp, hist):
    po = process_outcome(hist)
    if po:
        return {"class": po[0], "msg": po[1]}
    progs = hist["programs"]
    for i, e in enumerate(exp["outs"]):
        if i >= len(progs):
            return {"class": "session", "msg": "snippet %d was never executed" % i}
        a = progs[i]
        out = a["outcome"]
        if e["kind"] == "reset":
            continue
        if e["kind"] == "compiled":
            if "compiled" not in out:
                return {"class": "session", "msg": "host compile %d: expected a compiled function, got %s" % (i, json.dumps(out)[:200])}
            continue
        if e["kind"] == "nofn":
            if "no_such_function" not in out:
                return {"class": "session", "msg": "host call %d: the function should not exist, got %s" % (i, json.dumps(out)[:200])}
            continue
        if e["kind"] == "compile":
            if out.get("err") != "CompileError":
                return {"class": "session", "msg": "snippet %d: expected a compile error, got %s" % (i, json.dumps(out)[:200])}
            if a["events"]:
                return {"class": "session", "msg": "snippet %d: a non-compiling snippet executed something: %s" % (i, json.dumps(a["events"])[:200])}
            continue
        d = first_diff(e["events"], a["events"])
        if d is not None:
            j, ee, aa = d
            return {"class": "session", "msg": "snippet %d event %d: expected %s got %s (outcome %s)" % (
                i, j, json.dumps(ee), json.dumps(aa), json.dumps(out)[:160])}
        if e["kind"] == "ok" and not out.get("ok"):
            return {"class": "session", "msg": "snippet %d: expected normal completion, got %s" % (i, json.dumps(out)[:300])}
        # (the value Vm::execute hands back is not compared: it is whatever lay below the result on the value stack - the
        # function object or its last argument - and no listed property says what it should be)
        if e["kind"] == "err" and "errkind" in e and out.get("err") != e["errkind"]:
            return {"class": "session", "msg": "host call %d: expected it to be refused with %s, got %s" % (i, e["errkind"], json.dumps(out)[:200])}
        if e["kind"] == "err":
            if "err" not in out:
                return {"class": "session", "msg": "snippet %d: expected an uncaught failure (%s), got %s" % (i, e["needle"], json.dumps(out)[:200])}
            msgs = out.get("messages") or [""]
            if e["needle"] not in msgs[0]:
                return {"class": "session", "msg": "snippet %d: failure message %r does not name %r" % (i, msgs[0], e["needle"])}
    return None


CORPUS_PROBE = """fn __p_f(n) { if n == 0 { return 0; } return 1 + __p_f(n - 1); }
var __p_log = [];
try { __p_log.push("t"); } finally { __p_log.push("f"); }
try { throw "x"; } catch __p_e { __p_log.push(__p_e); } finally { __p_log.push("f2"); }
fn __p_g() { try { return "r"; } finally { __p_log.push("f3"); } }
__p_log.push(__p_g());
var __p_fib = Fiber.new(|x| { var y = Fiber.yield(x + 1); return y * 2; });
__p_log.push(__p_fib.call(1)); __p_log.push(__p_fib.call(5)); __p_log.push(__p_fib.has_finished());
try { __p_fib.call(1); } catch __p_e3 { __p_log.push(type(__p_e3) == RuntimeError); }
try { Fiber.yield(1); } catch __p_e4 { __p_log.push(type(__p_e4) == RuntimeError); }
__p_log.push(__p_f(40));
__p_log.push([1, 2, 3].iter().map(|x| { return x * 2; }).filter(|x| { return x > 2; }).collect());
try { nil.foo; } catch __p_e2 { __p_log.push(type(__p_e2) == AttributeError); }
#[constructor(new)] class __P_C { fn m(self) { return 7; } }
#[derive(__P_C), constructor(new)] class __P_D { fn m(self) { return super.m() + 1; } }
__p_log.push(__P_D.new().m());
var __p_t = 0; for __p_i in 1..5 { __p_t = __p_t + __p_i; } __p_log.push(__p_t);
var __p_m = {"k": (1, 2), 3: "v"}; __p_log.push(__p_m.get("k")); __p_log.push(__p_m.len());
__p_log.push("${1 + 1}/${"a" + "b"}");
print(__p_log);
print((type(print) == type(type), type(Error), type(StopIter), type(1), type("s"), type([]), type(nil)));
"""


class C15:
    ID = "C15"
    LEVEL = "fault_enumeration"
    TIMEOUT = 30.0
    RULE = ("case = one generated session (3-23 snippets on one Vm: definitions of globals/functions/classes/fibers/modules, "
            "uses of earlier definitions, try/finally and try/catch probes, non-compiling snippets, uncaught throws at several "
            "depths / through finally / inside fibers, Vm::reset) x crash plans: the crash-free run, EVERY single crash point (each "
            "dynamic fault point of the crash-free run fails once) when there are <= MAX_ENUM of them, and sampled plans with 2-3 crash "
            "points; each plan runs in checked and release builds and is compared snippet-by-snippet with the session model; "
            "sessions containing a reset are additionally replayed from the last reset on a fresh interpreter (metamorphic). "
            "Plus model-free sessions over the repository's own scripts (about a third end with a compile error or an uncaught error): [A, reset, B] - B must behave "
            "exactly as on a new interpreter - and [A, probe] - a probe that uses only names of its own (try/finally, fibers, recursion, iterator adaptors, classes, "
            "maps, interpolation, error classes) must behave exactly as on a new interpreter; each script is A once in both forms, checked and release builds. "
            "distinct_nontrivial = distinct (session, plan) hashes with >= 1 failed snippet followed by >= 1 later snippet 1/64 of the plans also run on the optimised build collecting at every allocation under valgrind memcheck.")
    COMPONENTS = {"real": ["yarel compiler", "VM interpret/execute/runtime_error/reset_stack/reset on ONE Vm per session",
                           "module system (imports persist across snippets)", "fibers persisting across snippets"],
                  "stub": ["fault-point native (crash points)", "module loader serving generated sources"]}
    ASSUMPTIONS = ["fibers that were running or waiting (on the chain of callers) when a snippet failed are finished afterwards (implementation-confirmed since fix 5f57364; before it the waiting ones were left neither finished nor callable)",
                   "re-importing a module whose body failed is left open by the property: runs that do it are executed (no crash allowed) but not compared (counted as tainted)",
                   "error message text is compared only for containment of the thrown value / error class"]
    MAX_ENUM = 30

    def configs(self, tier):
        return ["checked", "release", "checked+hooks", "release+debug_stress_gc"]

    def plan(self, tier):
        return self.n_corpus() + (2500 if tier == "quick" else 120000)

    def n_corpus(self):
        from . import c10
        return 2 * len(c10.scripts()[0])

    def wall_cap(self, tier):
        return 240 if tier == "quick" else 3300

    def generate(self, seed, idx, tier):
        nc = self.n_corpus()
        if idx < nc:
            # model-free sessions over the repository's own scripts (programs nobody wrote for this purpose; about a third of
            # them end with a compile error or an uncaught error, in every way the test authors thought of):
            #   reset   : [A, reset, B] - B must behave exactly as on a newly created interpreter
            #   residue : [A, PROBE]    - a probe that uses only names of its own must behave exactly as on a new interpreter
            ns = nc // 2
            if idx < ns:
                return {"case": "corpus", "kind": "reset", "a": idx, "b": Rng(derive(seed, "C15-corpus", idx)).below(ns)}
            return {"case": "corpus", "kind": "residue", "a": idx - ns}
        idx -= nc           # (generated sessions keep the seeds they had before the corpus cases were added)
        return {"case": "session", "sess_seed": derive(seed, "C15", idx), "tier": tier}

    def plans_for(self, ir, sseed, tier, stats):
        rng = Rng(derive(sseed, "plans"))
        base = model(ir, {})
        plans = [{}]
        # dynamic fault points of the crash-free run = occurrences counted by the model
        occ = {}
        pts = []
        # re-run the model with a recording hook: cheap way is to enumerate sites with their occurrence counts
        counts = count_points(ir)
        for site, n in counts:
            for o in range(1, n + 1):
                pts.append((site, o))
        if len(pts) <= self.MAX_ENUM:
            stats.inc("sessions_fully_enumerated")
            chosen = pts
        else:
            chosen = [pts[i] for i in sorted(set(rng.below(len(pts)) for _ in range(self.MAX_ENUM)))]
        for j, (site, o) in enumerate(chosen):
            plans.append({site: {str(o): (ERROR_KINDS + ["CompileError"])[(j + sseed) % 8]}})
        stats.inc("single_crash_placements", len(chosen))
        for _ in range(3 if tier == "quick" else 6):
            faults = {}
            for _f in range(rng.range(2, 3)):
                if not pts:
                    break
                site, o = rng.choice(pts)
                faults.setdefault(site, {})[str(o)] = rng.choice(ERROR_KINDS)
            plans.append(faults)
        return plans

    def check_corpus(self, sc, ctx):
        from . import c10
        stats = Stats()
        lst, mods = c10.scripts()
        name_a, src_a = lst[sc["a"]]
        if name_a.startswith("c10_extra/") or (sc["kind"] == "reset" and lst[sc["b"]][0].startswith("c10_extra/")):
            # C10's boundary scripts are sized for C10's time limit; on a busy machine one of them ran into this check's watchdog
            stats.inc("corpus_skipped_c10_extra")
            return {"stats": stats, "nontrivial": False}
        src_a = sc.get("source_a", src_a)
        if sc["kind"] == "reset":
            name_b, src_b = lst[sc["b"]]
            src_b = sc.get("source_b", src_b)
            session = [{"kind": "snippet", "source": src_a}, {"kind": "reset"}, {"kind": "snippet", "source": src_b}]
        else:
            name_b, src_b = "probe", CORPUS_PROBE
            session = [{"kind": "snippet", "source": src_a}, {"kind": "snippet", "source": src_b}]
        fresh = [{"kind": "snippet", "source": src_b}]
        stats.inc("corpus_sessions:" + sc["kind"])
        res = {"stats": stats, "nontrivial": False, "key": stable_hash([sc["kind"], src_a, src_b]),
               "scenario": dict(sc, source_a=src_a, source_b=src_b, names=[name_a, name_b])}

        def view(p_):
            return (c10.norm_events(p_["events"]), c10.norm_outcome(p_["outcome"]))
        for config in ("checked", "release"):
            hs = []
            for progs in (fresh, session):
                h = ctx.run(config, {"programs": progs, "tape": [], "faults": {}, "fs": mods, "config": {"display": True}})
                stats.inc("executions")
                po = process_outcome(h)
                if po and progs is fresh:
                    return res          # the second script stops the process on its own: not this property's business
                if po:
                    if po[0] in ("panic", "crash", "hang", "invalid-memory-access") and process_outcome(
                            ctx.run(config, {"programs": session[:1], "tape": [], "faults": {}, "fs": mods, "config": {"display": True}})):
                        return res      # ... and so does the first one
                    res["violation"] = {"class": po[0], "config": config, "msg": "[%s; %s then %s] %s" % (config, name_a, name_b, po[1])}
                    return res
                hs.append(h)
            first = hs[1]["programs"][0]["outcome"]
            if not first.get("ok"):
                stats.inc("corpus_first_script_failed:" + str(first.get("err")))
                res["nontrivial"] = True
            a, b = view(hs[0]["programs"][-1]), view(hs[1]["programs"][-1])
            if a != b:
                i = next((j for j in range(min(len(a[0]), len(b[0]))) if a[0][j] != b[0][j]), min(len(a[0]), len(b[0])))
                what = ("outcome %s vs %s" % (json.dumps(a[1])[:200], json.dumps(b[1])[:200])) if a[0] == b[0] else (
                    "event %d: %s vs %s" % (i, json.dumps(a[0][i] if i < len(a[0]) else None)[:200], json.dumps(b[0][i] if i < len(b[0]) else None)[:200]))
                res["violation"] = {"class": "reset-differs-from-fresh" if sc["kind"] == "reset" else "residue-of-earlier-run", "config": config,
                                    "msg": "[%s] %s behaves differently on a new interpreter and after %s%s: %s" % (
                                        config, name_b, name_a, " + reset" if sc["kind"] == "reset" else "", what)}
                return res
        return res

    def check(self, sc, ctx):
        stats = Stats()
        if sc.get("case") == "corpus":
            return self.check_corpus(sc, ctx)
        if sc.get("case") == "session":
            ir = gen_session(sc["sess_seed"])
            stats.inc("sessions")
            keys = set()
            taints = []
            sample = None
            for faults in self.plans_for(ir, sc["sess_seed"], sc.get("tier", "quick"), stats):
                one = {"ir": ir, "faults": faults}
                res = self.check_one(one, ctx, stats)
                if res.get("violation"):
                    return {"violation": res["violation"], "scenario": res["scenario"], "stats": stats,
                            "nontrivial": True, "key": res["key"], "taints": taints}
                taints += res.get("taints", [])
                if res.get("nontrivial"):
                    keys.add(res["key"])
                if sample is None and faults and res.get("nontrivial") and not res.get("taints"):
                    sample = {"snippets": [p.get("source", "<reset>") for p in res["scenario"]["programs"]],
                              "crash_plan": faults, "expected": res["exp_outs"]}
            return {"stats": stats, "nontrivial": bool(keys), "extra_keys": keys, "taints": taints, "sample": sample}
        return self.check_one(sc, ctx, stats)

    def check_one(self, sc, ctx, stats):
        ir = sc["ir"]
        faults = sc["faults"]
        try:
            progs, fs = programs_of(ir)
            exp = model(ir, faults)
        except (ValueError, KeyError, IndexError) as e:
            return {"stats": stats, "nontrivial": False, "invalid": str(e)}
        sc = dict(sc, programs=progs, fs=fs, tape=[])
        kinds = [o["kind"] for o in exp["outs"]]
        nontrivial = any(k in ("err", "compile") and i < len(kinds) - 1 for i, k in enumerate(kinds))
        key = stable_hash([ir["session"], faults])
        stats.merge(exp["probes"])
        stats.inc("plans")
        stats.inc("snippets", len(progs))
        stats.inc("crash_points_fired", len(exp["fired"]))
        res = {"stats": stats, "nontrivial": nontrivial, "key": key, "scenario": sc,
               "exp_outs": [{"kind": o["kind"], "events": o["events"][:12]} for o in exp["outs"]][:12]}
        if exp["taint"] and not sc.get("ignore_taint"):
            res["taints"] = sorted(exp["taint"])
            stats.inc("plans_tainted")
            h = ctx.run("checked", sc)
            stats.inc("executions")
            po = process_outcome(h)
            if po:
                res["violation"] = {"class": po[0], "msg": "[checked] " + po[1]}
            return res
        last_reset = max([i for i, it in enumerate(ir["session"]) if it[0] == "reset"], default=None)
        runs = [("checked", None), ("release", None)]
        if key % 4 == 0 or sc.get("force_gc_slice"):
            # a slice of the plans also runs with collect-at-every-allocation + quarantine: whatever a later snippet
            # can still reach (through globals, closures, fibers, modules) must have survived the failed run
            runs.append(("checked+hooks", {"gc": {"mode": "always", "quarantine": True}}))
        if key % MC_EVERY == 1 % MC_EVERY or sc.get("force_mc_slice"):
            # ... and a smaller slice in the optimised build collecting at every allocation, under valgrind (raw active-fiber
            # pointer, unchecked stack, cached instruction pointer after failed runs and resets)
            runs.append(("release+debug_stress_gc@memcheck", {}))
        for config, cfg in runs:
            h = ctx.run(config, dict(sc, config=cfg) if cfg else sc)
            stats.inc("executions")
            v = compare(exp, h)
            if cfg == {}:
                stats.inc("memcheck_runs")
                if v:
                    v["config"] = config
                    v["msg"] = "[%s] %s" % (config, v["msg"])
                    res["violation"] = v
                    res["scenario"] = dict(res["scenario"], force_mc_slice=True)
                    return res
                continue
            if v is None and cfg:
                gc = h.get("gc") or {}
                stats.inc("gc_slice_runs")
                if gc.get("uar_count", 0) > 0:
                    v = {"class": "use-after-reclaim", "msg": "%d use(s) of objects reclaimed although a later snippet could still reach them; first: %s" % (
                        gc["uar_count"], json.dumps(gc.get("uar", [])[:2]))}
            if cfg:
                if v:
                    v["config"] = config
                    v["msg"] = "[%s] %s" % (config, v["msg"])
                    res["violation"] = v
                    res["scenario"] = dict(res["scenario"], force_gc_slice=True)     # keeps the slice while the case is minimised
                    return res
                continue
            if v is None and last_reset is not None and last_reset < len(progs) - 1 and not any(it[0] in ("compile", "runc") for it in ir["session"]):
                # metamorphic: after a reset the interpreter must be indistinguishable from a new one
                stats.inc("metamorphic_suffix_replays")
                # crash points are addressed by (site, dynamic occurrence): renumber for the shorter history
                snap = exp["occ_at_last_reset"]
                f2 = {}
                for site, m_ in faults.items():
                    for o_, kd in m_.items():
                        if int(o_) > snap.get(site, 0):
                            f2.setdefault(site, {})[str(int(o_) - snap.get(site, 0))] = kd
                # ... and the file system is the one the session has reached by then (reads already served are gone)
                fs2 = {}
                for path_, ent in sc["fs"].items():
                    done = exp["fsreads_at_last_reset"].get(int(path_[2:]), 0) if path_[2:].isdigit() else 0
                    fs2[path_] = dict(ent, reads=ent["reads"][done:])
                suffix = dict(sc, programs=progs[last_reset + 1:], faults=f2, fs=fs2)
                h2 = ctx.run(config, suffix)
                stats.inc("executions")
                po = process_outcome(h2)
                if po:
                    v = {"class": po[0], "msg": "suffix on a fresh interpreter: " + po[1]}
                else:
                    a1 = h["programs"][last_reset + 1:]
                    a2 = h2["programs"]
                    for j, (x, y) in enumerate(zip(a1, a2)):
                        ox, oy = dict(x["outcome"]), dict(y["outcome"])
                        # stack-trace lines are not part of the comparison
                        for o_ in (ox, oy):
                            if "messages" in o_:
                                o_["messages"] = o_["messages"][:1]
                            o_.pop("value", None)      # what Vm::execute hands back (a function object with its address): not compared
                        if x["events"] != y["events"] or ox != oy:
                            v = {"class": "reset-not-fresh", "msg": "snippet %d after reset differs from the same snippet on a new interpreter: %s vs %s" % (
                                last_reset + 1 + j, json.dumps([x["events"], ox])[:300], json.dumps([y["events"], oy])[:300])}
                            break
            if v:
                v["config"] = config
                v["msg"] = "[%s] %s" % (config, v["msg"])
                res["violation"] = v
                return res
        return res

    def shrink_corpus(self, sc):
        for which in ("source_a", "source_b"):
            lines = (sc.get(which) or "").split("\n")
            n = len(lines)
            chunk = max(1, n // 4)
            while n > 1 and chunk >= 1:
                for lo in range(0, n, chunk):
                    cand = lines[:lo] + lines[lo + chunk:]
                    if cand:
                        yield dict(sc, **{which: "\n".join(cand)})
                if chunk == 1:
                    break
                chunk //= 2

    def shrink(self, sc):
        if sc.get("case") == "corpus":
            yield from self.shrink_corpus(sc)
            return
        import copy
        if "ir" not in sc:
            return
        ir = sc["ir"]
        faults = sc["faults"]
        for site in sorted(faults):
            f2 = {k: dict(v) for k, v in faults.items() if k != site}
            yield dict(sc, faults=f2)
        sess = ir["session"]
        for i in range(len(sess)):
            d = copy.deepcopy(ir)
            del d["session"][i]
            yield dict(sc, ir=d)
        for i, item in enumerate(sess):
            if item[0] == "snip" and len(item[1]) > 1:
                for j in range(len(item[1])):
                    d = copy.deepcopy(ir)
                    del d["session"][i][1][j]
                    yield dict(sc, ir=d)
        for i, item in enumerate(sess):
            if item[0] == "snip":
                for j, stt in enumerate(item[1]):
                    if stt[0] in ("call", "throw") and stt[1] > 1:
                        d = copy.deepcopy(ir)
                        d["session"][i][1][j][1] = 1
                        yield dict(sc, ir=d)

    def summarize(self, stats, tier):
        return {"crash_points_by_position": {k[len("crash_at:"):]: v for k, v in stats.items() if k.startswith("crash_at:")},
                "faults_fired_by_kind": {k[len("fault_kind:"):]: v for k, v in stats.items() if k.startswith("fault_kind:")},
                "logical_time": {"snippets": stats.get("snippets", 0), "plans": stats.get("plans", 0)},
                "tainted_plans_not_compared": {k[len("tainted:"):]: v for k, v in stats.items() if k.startswith("tainted:")}}


def count_points(ir):
    """(site, number of dynamic occurrences) on the crash-free run, in first-occurrence order."""
    seen = {}
    order = []

    class Rec(dict):
        def get(self, site, default=None):
            if site not in seen:
                seen[site] = 0
                order.append(site)
            seen[site] += 1
            return {}
    model(ir, Rec())
    return [(s_, seen[s_]) for s_ in order]


PROP = C15()
