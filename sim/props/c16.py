"""C16 - garbage is reclaimed: heap size is bounded by live data.

Simulated: the real heap under its *native threshold pacing* (release profile: collect_if_required is dead code when
debug assertions are on) with verif_hooks in observe-only mode: real reclamation, plus an allocation/collection event
stream consumed by a monitor in the runner. Workload: generated loop programs with a bounded live set (a ring of K
slots whose contents are replaced for ever, optional transient spikes of live data) and per-iteration garbage of
every object kind; caught injected failures inside the loop body (error paths are where a root handle is most
likely to be leaked). Invariants checked at every allocation event (I1 byte bound, I2 accounting) and over the
recorded history (I3 object counts N vs 2N iterations, I4 rooted objects N vs 2N, I5 pacing liveness, I6 the number of
fiber objects alive at quiescence equals the number the program can still reach, I8 rounds of reset + re-run do not accumulate objects, I7 a second interpreter created on the same
thread after the first was dropped ends with the same live objects).
"""
import json

from ..prng import Rng, derive
from ..values import ERROR_KINDS
from ..core import process_outcome, Stats, stable_hash

PRELUDE = """#[constructor(new)] class Node { fn touch(self) { return self.v; } }
fn mkclo(x) { return || { return x; }; }
fn mkcls(x) { #[constructor(new)] class Tmp { fn get(self) { return x; } } return Tmp; }
fn mksub(b) { #[derive(b), constructor(new)] class TmpSub { fn own(self) { return 1; } } return TmpSub; }
fn mk(kind, i) {
  if kind == 0 { return [i, i + 1, [i]]; }
  if kind == 1 { return (i, "x", (i, 2)); }
  if kind == 2 { return {i: [i], "k": (i, 1)}; }
  if kind == 3 { var n = Node.new(); n.v = [i]; n.w = (i, i); return n; }
  if kind == 4 { return mkclo([i, (i, 3)]); }
  if kind == 5 { var n = Node.new(); n.v = [i]; return n.touch; }
  if kind == 6 { var it = [[i], [i + 1]].iter(); it.next(); return it; }
  if kind == 7 { var f = Fiber.new(|x| { var keep = [x]; Fiber.yield(keep); return 1; }); f.call(i); return f; }
  if kind == 8 { return mkcls([i]); }
  if kind == 9 { return [i].iter().map(|v| { return [v]; }); }
  if kind == 10 { return mksub(mkcls((i, 4))).new(); }
  return [i];
}
fn mkretfin(prev) { var f = Fiber.new(|p| { try { return p; } finally { mkclo(1); } }); f.call(prev); return f; }
fn mkgen(prev, i) { return Fiber.new(|p| { var loc = [i, p == nil]; return || { return loc; }; }).call(prev); }
"""
NKINDS = 13

# per-iteration garbage statements ({i} loop counter expression, {s} small cyclic number)
GARBAGE = {
    "vec": "var g1 = [i, [i, i], (i, 1)];",
    "tuple": 'var g2 = (i, "t", [i]);',
    "map": 'var g3 = {i: [i], (i, 1): "v"}; acc = acc + g3.len();',
    "map_enum": "var g4 = {i: [i], i + 1: (i, 2)}; acc = acc + g4.items().len() + g4.keys().len();",
    "instance": "var g5 = Node.new(); g5.v = [i]; acc = acc + g5.touch().len();",
    "closure": "var g6 = mkclo([i]); acc = acc + g6().len();",
    "bound": "var g7 = mk(5, i); acc = acc + g7().len();",
    "iter_vec": "for e1 in [[i], [i]] { acc = acc + e1.len(); }",
    "iter_tuple": "for e2 in ([i], 1) { acc = acc + 1; }",
    "iter_str": 'for e3 in "ab" { acc = acc + 1; }',
    "iter_map": "acc = acc + [i, i + 1].iter().map(|v| { return [v]; }).collect().len();",
    "iter_filter": "acc = acc + [i, i + 1, i + 2].iter().filter(|v| { return v != i; }).collect().len();",
    "fiber_done": "var g8 = Fiber.new(|| { return [i]; }); acc = acc + g8.call().len();",
    "fiber_abandoned": "var g9 = mk(7, i);",
    "fiber_resumed": "var g10 = mk(7, i); acc = acc + g10.call();",
    "class": "var g11 = mk(8, i); acc = acc + g11.new().get().len();",
    "subclass": "var g12 = mk(10, i); acc = acc + g12.own();",
    "range": "var g13 = i..(i + 2); acc = acc + 1;",
    "slice": "var g14 = [i, [i], (i, 1), 4][1..3]; acc = acc + g14.len();",
    "string_small": 'var g15 = "s" + ["a", "b", "c"][i % 3]; acc = acc + g15.len();',
    "split": 'acc = acc + "a,b,c".split(",").len();',
    "failing_native": "try { [i][5]; } catch e4 { acc = acc + 1; }",
    "failing_op": 'try { [i] + 1; } catch e5 { acc = acc + 1; }',
    "thrown_object": "try { throw [i, (i, 1)]; } catch e6 { acc = acc + e6.len(); }",
    "unhashable": "try { var gm = {}; gm.insert([i], 1); } catch e7 { acc = acc + 1; }",
    "fault_point": 'try { print(("chk", "{site}")); } catch e8 { acc = acc + 1; }',
    "fault_in_callee": 'try { fpc("{site}", [i]); } catch e9 { acc = acc + 1; }',
    "fault_in_fiber": 'acc = acc + Fiber.new(|| { var loc = [i]; try { print(("chk", "{site}")); } catch e10 { return [i, i]; } return loc; }).call().len();',
    "finally_return": "acc = acc + fret([i]).len();",
    "import_ok": 'acc = acc + impok();',
    "import_missing": 'try { impmissing(); } catch e11 { acc = acc + 1; }',
    "interp": 'acc = acc + "${[1, 2]}".len();',
    "nested_junk": "var g16 = [[[i, (i, [i])]], {i: {i: [i]}}];",
    # each new fiber finishes its predecessor and is then left suspended: only `headf` and `prevf` stay referenced
    "fiber_daisy_chain": "var g17 = daisy(prevf); g17.call(); prevf = g17;",
    "import_uncompilable": 'try { impbad(); } catch e12 { acc = acc + 1; }',
    "import_uncompilable_once": 'if i == 3 { try { impbad(); } catch e13 { acc = acc + 1; } }',
    # loops left early: the loop variable, the hidden iterator and the collection must be dropped on that path too
    "for_break": "for e14 in [[i], [i], [i]] { acc = acc + 1; if acc > 0 { break; } }",
    "while_break": "var w1 = [i]; while true { w1 = [w1]; if w1.len() > 0 { break; } }",
    "for_continue": "for e17 in [[i], [i]] { if acc >= 0 { continue; } acc = acc + 1; }",
    # a block with a local of its own whose LAST statement is an if/else (try/catch) whose else (catch) block declares locals:
    # the two scope ends meet at a jump target
    "block_ending_in_if_else": "{ var q1 = [i]; if acc >= 0 { acc = acc + 1; } else { var q2 = 1; var q3 = 2; acc = acc + q2 + q3; } }",
    "block_ending_in_try_catch": "{ var q4 = [i]; var q5 = (i, 1); try { acc = acc + q4.len(); } catch e18 { var q6 = 1; acc = acc + q6; } }",
    # class declarations that fail half-way (between declaring the name and defining the class)
    "class_decl_undefined_base": "try { #[derive(NoSuchBase)] class Tmp1 { fn m(self) { return 1; } } } catch e15 { acc = acc + 1; }",
    "class_decl_bad_base": "try { var nb = [i]; #[derive(nb)] class Tmp2 { fn m(self) { return 1; } } } catch e16 { acc = acc + 1; }",
}
EXTRA = """fn fpc(site, pad) { var l = [pad]; print(("chk", site)); return l; }
fn fret(x) { try { return [x, x]; } finally { mkclo(x); } }
fn impok() { import "c16mod"; return c16mod.one(); }
fn impmissing() { import "c16nomod"; return 1; }
fn impbad() { import "c16bad"; return 1; }
fn daisy(prev) { return Fiber.new(|| { prev.call(); Fiber.yield(1); return 2; }); }
fn strand(i) { var a = Fiber.new(|| { return 0; }); fn f() { return a; } var g = nil; { var b = i; fn h() { return b; } g = h; } return g; }
"""
C16BAD = "var = ;\n"
C16MOD = "fn one() { return [Error, IndexError, ValueError, StopIter, Iter, MapIter].len() - 5; }\nvar table = [1, 2, 3];\n"


def gen_ir(seed):
    rng = Rng(seed)
    k = rng.choice([1, 3, 8, 20, 60])
    slots = [rng.below(NKINDS) for _ in range(k)]
    names = sorted(GARBAGE)
    body = [g for g in names if rng.chance(rng.choice([0.15, 0.3, 0.5]))]
    if not body:
        body = [rng.choice(names)]
    if "range" in body and "slice" in body:
        body.remove("slice")      # a revisited range next to evictions would make allocation counts timing dependent
    body = rng.shuffle(body)
    sites = 0
    stmts = []
    for g in body:
        if "{site}" in GARBAGE[g]:
            sites += 1
            stmts.append([g, "s%d" % sites])
        else:
            stmts.append([g, None])
    spikes = []
    for _ in range(rng.weighted([(50, 0), (30, 1), (20, 2)])):
        spikes.append([rng.choice(["start", "middle"]), rng.choice([500, 2000, 6000]), rng.below(NKINDS)])
    n = rng.choice([300, 600, 1200, 2400])
    return {"slots": slots, "body": stmts, "spikes": spikes, "n": n, "sites": sites}


def render(ir, n):
    k = len(ir["slots"])
    out = [PRELUDE, EXTRA]
    e = out.append
    e("fn spike(m, kind) { var big = []; var j = 0; while j < m { big.push(mk(kind, j)); j = j + 1; } return big.len(); }")
    e("fn natid(x) { return x; }")
    e("fn natshow(v) { if type(v) == Num || type(v) == String || type(v) == Bool || v == nil { return v; } return type(v); }")
    e("fn run(n) {")
    e("  var acc = 0;")
    e("  var ring = [%s];" % ", ".join(("mkgen(nil, %d)" % j) if kd == 11 else ("mkretfin(nil)" if kd == 12 else ("mk(%d, %d)" % (kd, j))) for j, kd in enumerate(ir["slots"])))
    e("  var headf = Fiber.new(|| { Fiber.yield(0); return 0; }); headf.call(); var prevf = headf;")
    e("  var kinds = [%s];" % ", ".join(str(kd) for kd in ir["slots"]))
    for sp in ir["spikes"]:
        if sp[0] == "start":
            e("  acc = acc + spike(%d, %d);" % (sp[1], sp[2]))
    if ir.get("strand"):
        # three closures stay alive, each over the INNER variable of a frame whose outer variable (a fiber) another closure
        # captured; that other closure is dropped, so at quiescence none of those fibers is reachable (invariant I6 counts them)
        e("  var ring9 = [nil, nil, nil];")
    e("  var i = 0;")
    e("  while i < n {")
    e("    var s = i %% %d;" % k)
    e("    if kinds[s] == 11 { ring[s] = mkgen(ring[s], i); } else if kinds[s] == 12 { ring[s] = mkretfin(ring[s]); } else { ring[s] = mk(kinds[s], i); }")
    for sp in ir["spikes"]:
        if sp[0] == "middle":
            e("    if i == %d { acc = acc + spike(%d, %d); }" % (ir["n"] // 2, sp[1], sp[2]))
    for g, site in ir["body"]:
        e("    " + GARBAGE[g].replace("{site}", site or ""))
    if ir.get("strand"):
        e("    ring9[i % 3] = strand(i);")
    for j, expr in enumerate(ir.get("nat", [])):
        # built-ins called with awkward arguments: whatever each call does - a value or an error - it must leave nothing behind
        e("    try { natshow(%s); } catch ne%d { acc = acc + 1; }" % (expr, j))
    e("    i = i + 1;")
    e("  }")
    # quiescence: the bounded live set (ring, headf, prevf) is still referenced; everything else must be reclaimable
    e('  print(("gc",));')
    e('  print(("stats", "end"));')
    e("  return acc + ring.len();")
    e("}")
    e('print(("ev", "sum", run(%d)));' % n)
    # what a second interpreter on the same thread, or the same one after a reset, must see exactly like the first: the classes
    # of freshly built and of literal values, and a string method
    e('print(("ev", "types", type("he" + "llo") == String, type("hello") == String, type([1]) == Vec, type((1, 2)) == Tuple, type({}) == HashMap, type(1..2) == Range, "hello".len(), IndexError != ValueError));')
    return "\n".join(out) + "\n"


def nat_exprs(seed):
    """expressions of C10's NAT generator (every built-in method and operator, awkward arguments) for the loop body"""
    from . import c10
    rng = Rng(seed)
    out = []
    for _ in range(rng.range(40, 110)):
        r = rng.choice(c10.NAT_RECEIVERS)
        if rng.chance(0.4):
            out.append("%s.%s(%s)" % (r, rng.choice(c10.NAT_METHODS), ", ".join(rng.choice(c10.NAT_ARGS) for _ in range(rng.weighted([(3, 0), (5, 1), (3, 2), (1, 3)])))))
        else:
            out.append(rng.choice(c10.NAT_OPS).format(r=r, a=rng.choice(c10.NAT_ARGS), b=rng.choice(c10.NAT_ARGS), n=rng.choice(c10.NAT_POS)))
    # a closure literal would be a fresh object whose address appears in the text of error messages and interpolations: one more
    # interned string per round, at addresses that depend on what the runner process did before - the history would no longer be a
    # function of the seed (the determinism selftest caught exactly that). A declared function is one object for the whole run.
    return [x.replace("|x| { return x; }", "natid") for x in out]


N_NAT = {"quick": 100, "thorough": 6000}


def fault_plan(rng, ir, occurrences):
    faults = {}
    for si in range(1, ir["sites"] + 1):
        rate = rng.choice([0.0, 0.01, 0.05, 0.3])
        m = {}
        for o in range(1, occurrences + 1):
            if rng.chance(rate):
                m[str(o)] = rng.choice(ERROR_KINDS)
        if m:
            faults["s%d" % si] = m
    return faults


EXCLUDED = ("ObjString", "Chunk", "ObjFunction")


def excluded(t):
    return any(x in t for x in EXCLUDED)


def stats_of(hist):
    for e in hist["programs"][0]["events"]:
        if isinstance(e, list) and e and isinstance(e[0], dict) and "stats" in e[0]:
            return e[0]["stats"]
    return None


def types_of(prog):
    for e in prog["events"]:
        if isinstance(e, list) and len(e) >= 2 and e[0] == {"s": "types"}:
            return e[1:]
    return None


TYPES_OK = [{"b": True}] * 6 + [{"n": "4014000000000000"}, {"b": True}]


def checksum_of(hist):
    for e in hist["programs"][0]["events"]:
        if isinstance(e, list) and len(e) == 2 and e[0] == {"s": "sum"}:
            return e[1]
    return None


CALIBRATION = PRELUDE + """fn run(n) { print(("gc",)); print(("stats", "end")); return 0; }
print(("ev", "sum", run(0)));
"""
_base_fibers = {}


def held_fibers(ir):
    """fiber objects the loop program can still reach at quiescence (ring slots of kind 7 hold a suspended fiber each,
    `headf` is always held; with the daisy-chain statement `prevf` and the predecessor its closure still names)"""
    n = sum(1 for kd in ir["slots"] if kd in (7, 12)) + 1      # kind 7: a suspended fiber; kind 12: a finished one
    if any(g == "fiber_daisy_chain" for g, _ in ir["body"]):
        n += 2        # prevf (suspended) and, through the variable its body closed over, its finished predecessor
    return n


class C16:
    ID = "C16"
    LEVEL = "exploration"
    TIMEOUT = 40.0
    RULE = ("case = generated loop program with a bounded live set (ring of 1-60 slots of 13 object kinds replaced for ever; optional "
            "transient spikes of 500-6000 live objects at the start or in the middle) and a random subset of 38 per-iteration garbage "
            "statements (every object kind, iterators, fibers finished/abandoned/resumed, classes and subclasses declared in the loop, "
            "fresh ranges, failing natives and operations, thrown objects, injected host failures at top level / in a callee / in a "
            "fiber (fault plan over dynamic occurrences), returns through finally, successful and failing imports); each case runs "
            "with N and 2N iterations under the real threshold pacing (release build) and once under never-collect; invariants I1/I2 "
            "at every allocation event, I3/I4/I5 over the history. 100 (thorough: 6 000) further programs put 40-110 calls of built-in methods and operators with awkward arguments "
            "(C10's NAT generator: wrong types, counts, sizes, positions; most of them fail and are caught) into the loop body and run few rounds: whatever a built-in does, it must leave nothing behind. non-trivial = >= 1 collection under native pacing; distinct = program hash")
    COMPONENTS = {"real": ["heap allocate_raw/collect_if_required/collect/sweep with native threshold pacing (release profile)", "Root/UniqueRoot accounting", "compiler, VM, core library"],
                  "stub": ["observer of allocation/collection events and heap statistics (verif_hooks, observe-only)", "fault-point native", "module loader"]}
    ASSUMPTIONS = ["the bound is on the heap's own accounting unit (shallow size_of::<T>() per object), which is what the property anchors and the pacing uses; memory owned behind a box (a fiber's value stack, vector buffers) is not counted by yarel and therefore not by this check",
                   "interned strings, chunks and functions are excluded from the N-vs-2N object count comparison (retained by design)",
                   "byte totals are recomputed by the monitor from the object list, not read from the fields the pacing code maintains"]

    def configs(self, tier):
        return ["release+hooks"]

    def plan(self, tier):
        return N_NAT[tier] + (400 if tier == "quick" else 30000)

    def wall_cap(self, tier):
        return 240 if tier == "quick" else 3300

    def generate(self, seed, idx, tier):
        nat = None
        if idx < N_NAT[tier]:
            cseed = derive(seed, "C16-nat", idx)
            nat = nat_exprs(derive(cseed, "exprs"))
        else:
            idx -= N_NAT[tier]      # (the other programs keep the seeds they had before the NAT family was added)
            cseed = derive(seed, "C16", idx)
        ir = gen_ir(cseed)
        if nat or idx % 2 == 0:
            ir["strand"] = True
        if nat:
            ir["nat"] = nat
            ir["n"] = 150 + cseed % 250       # many different calls, few rounds: a leak of one object per round shows in N vs 2N
        rng = Rng(derive(cseed, "faults"))
        faults = fault_plan(rng, ir, 2 * ir["n"])
        return {"ir": ir, "faults": faults}

    def run_one(self, ctx, sc, n, mode, second_vm=False, reset_rounds=0):
        src = render(sc["ir"], n)
        cfg = {"gc": {"mode": mode, "quarantine": False, "monitor": True}, "max_events": 64}
        progs = [{"kind": "snippet", "source": src}]
        for _ in range(reset_rounds):
            # the host resets its interpreter and runs the same program again
            progs += [{"kind": "reset"}, {"kind": "snippet", "source": src}]
        if second_vm:
            # the same program again on a second interpreter created on the same thread after the first one was dropped
            progs += [{"kind": "newvm"}, {"kind": "snippet", "source": src}]
        run_sc = {"programs": progs, "tape": [], "faults": sc["faults"],
                  "fs": {"c16mod": {"source": C16MOD, "reads": []}, "c16bad": {"source": C16BAD, "reads": []}}, "config": cfg}
        return src, ctx.run("release+hooks", run_sc)

    def check(self, sc, ctx):
        stats = Stats()
        ir = sc["ir"]
        n = ir["n"]
        stats.inc("programs")
        for g, _ in ir["body"]:
            stats.inc("garbage:" + g)
        if ir.get("nat"):
            stats.inc("programs_calling_built_ins_with_awkward_arguments")
            stats.inc("awkward_built_in_calls_per_iteration", len(ir["nat"]))
        stats.inc("ring_slots", len(ir["slots"]))
        stats.inc("spikes", len(ir["spikes"]))
        res = {"stats": stats, "nontrivial": False, "key": stable_hash(ir), "scenario": sc}
        hs = {}
        for label, iters, mode in (("N", n, "native"), ("2N", 2 * n, "native"), ("never", n, "never")):
            src, h = self.run_one(ctx, sc, iters, mode)
            stats.inc("executions")
            po = process_outcome(h)
            if po:
                res["violation"] = {"class": po[0], "msg": "[%s] %s" % (label, po[1])}
                return res
            out = h["programs"][0]["outcome"]
            if not out.get("ok"):
                res["violation"] = {"class": "workload-error", "msg": "[%s] loop program ended with %s" % (label, json.dumps(out)[:300])}
                return res
            if types_of(h["programs"][0]) != TYPES_OK:
                res["violation"] = {"class": "workload-error", "msg": "[%s] built-in classes are not what they should be: %s" % (label, json.dumps(types_of(h["programs"][0]))[:200])}
                return res
            hs[label] = h
            mon = (h.get("gc") or {}).get("monitor") or {}
            if mode == "native":
                stats.inc("allocations", mon.get("allocs", 0))
                stats.inc("collections", mon.get("collections", 0))
                stats.inc("objects_reclaimed", mon.get("freed_objects", 0))
                stats.inc("bytes_allocated_total", mon.get("alloc_bytes_total", 0))
                stats.max("heap_bytes", mon.get("max_bytes", 0))
                stats.max("overshoot_beyond_bound", mon.get("max_over", -1))
                stats.inc("faults_fired", len(h.get("faults_fired", [])))
                if mon.get("collections", 0) > 0:
                    res["nontrivial"] = True
                # I1: bound at every allocation
                if mon.get("n_bound", 0) > 0:
                    res["violation"] = {"class": "heap-bound", "msg": "[%s] I1 violated at %d allocation(s): %s" % (
                        label, mon["n_bound"], "; ".join(mon.get("bound_violations", [])[:2]))}
                    return res
                # I2: accounting
                if mon.get("n_drift", 0) > 0:
                    res["violation"] = {"class": "accounting-drift", "msg": "[%s] I2 violated %d time(s): %s" % (
                        label, mon["n_drift"], "; ".join(mon.get("drift_violations", [])[:2]))}
                    return res
                # I5: pacing liveness
                if mon.get("alloc_bytes_total", 0) > 4 * 65536 + 2 * (mon.get("max_bytes", 0)) and mon.get("collections", 0) == 0:
                    res["violation"] = {"class": "never-collects", "msg": "[%s] I5: %d bytes allocated and no collection ever ran" % (
                        label, mon["alloc_bytes_total"])}
                    return res
        res["sample"] = {"source": render(ir, n), "fault_sites": sorted(sc["faults"]),
                         "monitor_N": (hs["N"].get("gc") or {}).get("monitor")}
        # I7: an interpreter that has been dropped leaves nothing behind: the same program on a second interpreter created on
        # the same thread (the heap is thread-local and shared) ends with the same live objects as on a first interpreter
        if sc.get("second_vm", stable_hash(ir) % 3 == 0):
            src, h = self.run_one(ctx, sc, n, "native", second_vm=True)
            stats.inc("executions")
            stats.inc("second_interpreter_runs")
            po = process_outcome(h)
            if po:
                res["violation"] = {"class": po[0], "msg": "[second interpreter] %s" % po[1]}
                return res
            bad7 = [p_.get("outcome") for p_ in h["programs"] if p_.get("outcome", {}).get("err") or p_.get("outcome", {}).get("panic")]
            if bad7:
                res["violation"] = {"class": "workload-error", "msg": "[second interpreter] the same program fails on a second interpreter of the thread: %s" % json.dumps(bad7)[:300]}
                return res
            if types_of(h["programs"][-1]) != TYPES_OK:
                res["violation"] = {"class": "second-interpreter-differs", "msg": "[second interpreter] built-in classes seen by the second interpreter of the thread: %s" % json.dumps(types_of(h["programs"][-1]))[:200]}
                return res
            mon7 = (h.get("gc") or {}).get("monitor") or {}
            if mon7.get("n_bound", 0) > 0:
                res["violation"] = {"class": "heap-bound", "msg": "[second interpreter] I1 violated at %d allocation(s): %s" % (
                    mon7["n_bound"], "; ".join(mon7.get("bound_violations", [])[:2]))}
                return res
            if mon7.get("n_drift", 0) > 0:
                res["violation"] = {"class": "accounting-drift", "msg": "[second interpreter] I2 violated %d time(s): %s" % (
                    mon7["n_drift"], "; ".join(mon7.get("drift_violations", [])[:2]))}
                return res
            st2 = None
            for e_ in h["programs"][-1]["events"]:
                if isinstance(e_, list) and e_ and isinstance(e_[0], dict) and "stats" in e_[0]:
                    st2 = e_[0]["stats"]
            st1 = stats_of(hs["N"])
            if st1 is not None and st2 is not None:
                for t in sorted(set(st1) | set(st2)):
                    if excluded(t):
                        continue      # interned strings differ legitimately (the second program meets other injected failures)
                    a, bb = st1.get(t, [0, 0, 0]), st2.get(t, [0, 0, 0])
                    if a[0] != bb[0] or a[2] != bb[2]:
                        res["violation"] = {"class": "dropped-interpreter-leaves-objects", "msg": "I7: %s: %d objects (%d rooted) at quiescence on a first interpreter, %d (%d rooted) on a second one created after the first was dropped" % (
                            t, a[0], a[2], bb[0], bb[2])}
                        return res
        # I8: rounds of reset + re-run on one interpreter do not accumulate objects: the second and the third round end with
        # the same live objects (per type; the first round may differ from them, it starts from the bootstrap)
        if sc.get("reset_rounds", stable_hash(ir) % 3 == 1):
            src, h = self.run_one(ctx, sc, n, "native", reset_rounds=2)
            stats.inc("executions")
            stats.inc("reset_round_runs")
            po = process_outcome(h)
            if po:
                res["violation"] = {"class": po[0], "msg": "[reset rounds] %s" % po[1]}
                return res
            bad8 = [p_.get("outcome") for p_ in h["programs"] if p_.get("outcome", {}).get("err") or p_.get("outcome", {}).get("panic")]
            if bad8:
                res["violation"] = {"class": "workload-error", "msg": "[reset rounds] the same program fails after a reset: %s" % json.dumps(bad8)[:300]}
                return res
            if any(types_of(h["programs"][pi_]) != TYPES_OK for pi_ in (2, 4) if pi_ < len(h["programs"])):
                res["violation"] = {"class": "reset-interpreter-differs", "msg": "[reset rounds] built-in classes seen after a reset differ"}
                return res
            mon8 = (h.get("gc") or {}).get("monitor") or {}
            if mon8.get("n_bound", 0) > 0:
                res["violation"] = {"class": "heap-bound", "msg": "[reset rounds] I1 violated at %d allocation(s): %s" % (
                    mon8["n_bound"], "; ".join(mon8.get("bound_violations", [])[:2]))}
                return res
            if mon8.get("n_drift", 0) > 0:
                res["violation"] = {"class": "accounting-drift", "msg": "[reset rounds] I2 violated %d time(s): %s" % (
                    mon8["n_drift"], "; ".join(mon8.get("drift_violations", [])[:2]))}
                return res
            per_round = []
            for pi in (2, 4):
                st_ = None
                if pi < len(h["programs"]):
                    for e_ in h["programs"][pi]["events"]:
                        if isinstance(e_, list) and e_ and isinstance(e_[0], dict) and "stats" in e_[0]:
                            st_ = e_[0]["stats"]
                per_round.append(st_)
            if per_round[0] is None or per_round[1] is None:
                res["violation"] = {"class": "workload-error", "msg": "[reset rounds] a round after a reset did not reach its end: %s" % json.dumps(
                    [p_.get("outcome") for p_ in h["programs"]])[:300]}
                return res
            for t in sorted(set(per_round[0]) | set(per_round[1])):
                if excluded(t):
                    continue
                a, bb = per_round[0].get(t, [0, 0, 0]), per_round[1].get(t, [0, 0, 0])
                if a[0] != bb[0] or a[2] != bb[2]:
                    res["violation"] = {"class": "reset-rounds-accumulate-objects", "msg": "I8: %s: %d objects (%d rooted) at quiescence in the second round of reset + run, %d (%d rooted) in the third" % (
                        t, a[0], a[2], bb[0], bb[2])}
                    return res
        # checksum must not depend on the collector (cheap guard against "bounded because live data was freed")
        if checksum_of(hs["N"]) != checksum_of(hs["never"]):
            res["violation"] = {"class": "checksum", "msg": "program result under native pacing %s differs from never-collect %s" % (
                json.dumps(checksum_of(hs["N"])), json.dumps(checksum_of(hs["never"])))}
            return res
        s1, s2 = stats_of(hs["N"]), stats_of(hs["2N"])
        if s1 is None or s2 is None:
            res["violation"] = {"class": "harness", "msg": "heap statistics event missing"}
            return res
        # I6: fiber objects alive at quiescence = the ones the program can still reach (+ what an idle interpreter has)
        if "base" not in _base_fibers:
            cal = ctx.run("release+hooks", {"programs": [{"kind": "snippet", "source": CALIBRATION}], "tape": [], "faults": {},
                                            "config": {"gc": {"mode": "native", "quarantine": False, "monitor": True}, "max_events": 64}})
            cs = stats_of(cal) or {}
            _base_fibers["base"] = sum(v[0] for t_, v in cs.items() if "ObjFiber" in t_)
        want = _base_fibers["base"] + held_fibers(ir)
        for label_, st_ in (("N", s1), ("2N", s2)):
            have = sum(v[0] for t_, v in st_.items() if "ObjFiber" in t_)
            if have != want:
                res["violation"] = {"class": "unreachable-fibers-alive", "msg": "I6: [%s] %d fiber objects are alive after a full collection at quiescence; the program can reach %d (idle interpreter: %d)" % (
                    label_, have, want - _base_fibers["base"], _base_fibers["base"])}
                return res
        # I3 / I4
        for t in sorted(set(s1) | set(s2)):
            if excluded(t):
                continue
            a, bb = s1.get(t, [0, 0, 0]), s2.get(t, [0, 0, 0])
            if a[0] != bb[0]:
                res["violation"] = {"class": "objects-left-behind", "msg": "I3: after a final collection %d x %s remain with N=%d iterations but %d with 2N (garbage is retained)" % (
                    a[0], t, n, bb[0])}
                return res
            if a[2] != bb[2]:
                res["violation"] = {"class": "rooted-objects-left-behind", "msg": "I4: %d x %s hold a root count at quiescence with N=%d iterations but %d with 2N (a root handle is leaked)" % (
                    a[2], t, n, bb[2])}
                return res
        return res

    def shrink(self, sc):
        import copy
        ir = sc["ir"]
        if sc["faults"]:
            yield dict(sc, faults={})
        for i in range(len(ir["body"]) - 1, -1, -1):
            d = copy.deepcopy(ir)
            del d["body"][i]
            yield dict(sc, ir=d)
        for i in range(len(ir.get("nat", [])) - 1, -1, -1):
            d = copy.deepcopy(ir)
            del d["nat"][i]
            yield dict(sc, ir=d)
        for i in range(len(ir["spikes"])):
            d = copy.deepcopy(ir)
            del d["spikes"][i]
            yield dict(sc, ir=d)
        if len(ir["slots"]) > 1:
            d = copy.deepcopy(ir)
            d["slots"] = d["slots"][:1]
            yield dict(sc, ir=d)
        if ir["n"] > 100:
            d = copy.deepcopy(ir)
            d["n"] = max(50, ir["n"] // 2)
            yield dict(sc, ir=d)
        for i, sp in enumerate(ir["spikes"]):
            if sp[1] > 500:
                d = copy.deepcopy(ir)
                d["spikes"][i][1] = 500
                yield dict(sc, ir=d)

    def summarize(self, stats, tier):
        return {"garbage_kinds_exercised": {k[len("garbage:"):]: v for k, v in stats.items() if k.startswith("garbage:")},
                "logical_time": {"allocations": stats.get("allocations", 0), "collections": stats.get("collections", 0),
                                 "bytes_allocated_total": stats.get("bytes_allocated_total", 0)},
                "max_heap_bytes": stats.get("max:heap_bytes", 0),
                "max_overshoot_beyond_bound_bytes": stats.get("max:overshoot_beyond_bound", 0)}


PROP = C16()
