"""C10 - optimised and checked builds behave identically.

The "fault" here is the build configuration: one scenario (one seed, one tape, one fault plan, one simulated file
system) must produce one history in every build of the library. The scenario files of the other checks' generators
(exception nests with fault plans, fiber schedules, map histories, import graphs over the simulated file system,
REPL sessions with crash points, loop programs, heap-shape programs) and every script of the repository's own test
corpus are executed by runner binaries built in each configuration and the histories are compared with the one of
the `checked` build. No hooks: the builds are exactly what a user would ship.
"""
import glob
import json
import os
import re

from ..prng import Rng, derive
from ..core import process_outcome, Stats, stable_hash
from . import c01, c08, c09, c12, c14, c15, c16

SCRIPTS_DIR = "/repo/yarel/tests/scripts"
ADDR = re.compile(r"0x[0-9a-fA-F]+")

QUICK_CONFIGS = ["checked", "release", "release+safe_active_fiber+debug_stress_gc"]
THOROUGH_CONFIGS = ["checked", "release", "release+safe_stack", "release+safe_active_fiber", "release+safe_vm_opcodes",
                    "release+safe_class_lookup", "release+debug_stress_gc",
                    "release+safe_stack+safe_active_fiber+safe_vm_opcodes+safe_class_lookup+debug_stress_gc",
                    "release+safe_active_fiber+debug_stress_gc", "dev"]

_scripts = None


def scripts():
    global _scripts
    if _scripts is None:
        files = [f for f in sorted(glob.glob(os.path.join(SCRIPTS_DIR, "**", "*.yl"), recursive=True)) if os.path.isfile(f)]
        mods = {}
        for f in files:
            rel = os.path.relpath(f, SCRIPTS_DIR)[:-3]
            if rel.startswith("modules/"):
                with open(f) as fh:
                    mods[rel] = {"source": fh.read(), "reads": []}
        out = []
        for f in files:
            with open(f) as fh:
                src = fh.read()
            if "clock(" in src:
                continue
            out.append((os.path.relpath(f, SCRIPTS_DIR), src))
        # boundary-value scripts of our own (huge ranges, shifts, call depth at the frame limit, 255-entry literals, UTF-8
        # boundaries, assignments to undeclared globals, fiber switches inside finally): no expected output, only compared across builds
        extra = os.path.join(os.path.dirname(os.path.abspath(__file__)), "c10_extra")
        for f in sorted(glob.glob(os.path.join(extra, "*.yl"))):
            with open(f) as fh:
                out.append(("c10_extra/" + os.path.basename(f), fh.read()))
        _scripts = (out, mods)
    return _scripts


def norm_outcome(o):
    o = dict(o)
    if "messages" in o:
        o["messages"] = [ADDR.sub("[MEMADDR]", m) for m in o["messages"]]
    return o


def mask(x):
    """object addresses inside string values (a function or instance that was interpolated into a string)"""
    if isinstance(x, dict):
        return {k: (ADDR.sub("[MEMADDR]", v) if k == "s" and isinstance(v, str) else mask(v)) for k, v in x.items()}
    if isinstance(x, list):
        return [mask(v) for v in x]
    return x


def norm_events(ev):
    out = []
    for e in ev:
        if isinstance(e, list) and len(e) == 2 and e[0] == "print" and isinstance(e[1], str):
            out.append(["print", ADDR.sub("[MEMADDR]", e[1])])
        else:
            out.append(mask(e))
    return out


GENERATORS = ["C08", "C09", "C12", "C14", "C15", "C16", "C01", "NAT"]

# "NAT": built-in methods and operators called with awkward arguments (too long, empty, negative, fractional, infinite, of the
# wrong type, too many, too few); whatever each call does - a value or an error - it must do in every build alike
NAT_RECEIVERS = ['""', '"a"', '"abc"', '"héllo"', '"a,b,,c"', '"12.5"', "[]", "[1, 2, 3]", '[[1], "x", nil]', "()", "(1, 2, 3)", '(1, ("a", [2]))',
                 "{}", '{1: "a", "k": [2], (1, 2): 3}', "0..3", "2..2", "5..1", "-2..2", "7", "nil", "true", "1.5"]
NAT_RECEIVERS += ['"%s€uro"' % ("a" * n_) for n_ in (15, 31, 47, 63, 79, 127, 255)] + ['"%sé"' % ("9" * n_) for n_ in (31, 47, 63)]
NAT_METHODS = ["len", "iter", "is_alpha", "is_digit", "is_hexdigit", "count_chars", "char_byte_index", "find", "replace", "split",
               "starts_with", "ends_with", "to_num", "to_bytes", "to_code_points", "push", "pop", "has_key", "get", "insert", "remove",
               "clear", "keys", "values", "items", "next", "map", "filter", "collect", "derives"]
NAT_ARGS = ["0", "1", "-1", "2", "3", "100", "0.5", "-0.0", "1 / 0", "0 / 0", "nil", '""', '"a"', '"abc"', '"abcdef"', '","', '"bc"', "[]", "[1]", "(1,)",
            "true", "0..2", "2..1", "-1..1", "1..100", "|x| { return x; }", "Num", "String"]
# numbers at the edge of the integer types the interpreter converts to (negation, casts and subtraction overflow there)
NAT_EXTREME = ["-1 / 0", "1 / 0", "-9223372036854775808", "9223372036854775807", "9223372036854775808", "-9223372036854775809", "18446744073709551615", "18446744073709551616",
               "4294967295", "4294967296", "-4294967296", "2147483648", "-2147483649", "1000000000000000000000000000000", "-1000000000000000000000000000000", "9007199254740993"]
NAT_ARGS += NAT_EXTREME
NAT_POS = ["0", "1", "2", "3", "-1", "100", "0.5"] * 3 + NAT_EXTREME
NAT_OPS = ["{r}.to_num()", "{r}.to_num()", "{r}.to_bytes().len()", "{r}.count_chars()",
           # methods read as values (bound, not called)
           "{r}.iter().map", "{r}.iter().filter", "{r}.iter().collect", "{r}.iter().reduce", "{r}.len", "{r}.iter", "{r}.push", "{r}.keys", "{r}.find",
           "({r}.iter().map)({a})", "({r}.len)()",
           "{r}.find({a}, {n})", "{r}.find({a}, {n})", "{r}.replace({a}, {b})", "{r}.split({a})", "{r}.starts_with({a})", "{r}.ends_with({a})",
           "{r}.char_byte_index({n})", "{r}.get({a})", "{r}.insert({a}, {b})", "{r}.has_key({a})", "{r}.remove({a})", "{r}.push({a})",
           "{r}.iter().map({a}).collect()", "{r}.derives({a})", "{r}[{n}]", "{r}[{n}..{a}]", "{r}[{a}]", "{r}[{a}..{b}]", "{r} + {a}", "{r} == {a}", "{r} < {a}", "-{r}", "!{r}", '"${{{r}}}/${{{a}}}"', "String.from({r})",
           "String.from_ascii({a})", "String.from_utf8([{a}, {b}])", "String.from_code_points([{a}])", "type({r})", "({r}, {a})[{b}]"]
# an argument longer than the receiver (length differences computed in unsigned arithmetic wrap or, in a build with overflow checks, stop
# the interpreter), at every valid start
NAT_OPS += ['{r}.find({r} + "x", 0)', '{r}.find("x" + {r}, {n})', '"ab".find("abcdef", {n})', '"".find({a}, 0)', '{r}.find("abcdefghijklmnopqrstuvwxyz", {n})',
            '{r}.starts_with({r} + "x")', '{r}.ends_with("x" + {r})', '{r}.replace({r} + "x", {a})', '{r}.split({r} + "x")', '{r}.replace("", {a})', '{r}.split("")']


def nat_program(seed):
    rng = Rng(seed)
    out = ["fn show(v) { if type(v) == Num || type(v) == String || type(v) == Bool || v == nil { return v; } return type(v); }"]
    for i in range(rng.range(20, 60)):
        r = rng.choice(NAT_RECEIVERS)
        if rng.chance(0.4):
            expr = "%s.%s(%s)" % (r, rng.choice(NAT_METHODS), ", ".join(rng.choice(NAT_ARGS) for _ in range(rng.weighted([(3, 0), (5, 1), (3, 2), (1, 3)]))))
        else:
            expr = rng.choice(NAT_OPS).format(r=r, a=rng.choice(NAT_ARGS), b=rng.choice(NAT_ARGS), n=rng.choice(NAT_POS))
        out.append('try { print(("ev", %d, show(%s))); } catch e%d { print(("ev", %d, "error", type(e%d))); }' % (i, expr, i, i, i))
    return "\n".join(out) + "\n"


def generated(seed, idx):
    """-> (family, [runner scenarios]) for generated case number idx"""
    fam = GENERATORS[idx % len(GENERATORS)]
    sub = idx // len(GENERATORS)
    if fam == "C08":
        nseed = derive(seed, "C10-C08", sub)
        ir = c08.gen_nest(nseed)
        try:
            c08.render(ir)
        except c08.RenderError:
            return fam, []
        plans = c08.PROP.plans_for(ir, nseed, "quick", Stats())
        rng = Rng(derive(nseed, "pick"))
        chosen = [plans[0]] + [plans[rng.below(len(plans))] for _ in range(3)]
        out = []
        for tape, faults in chosen:
            if c08.model(ir, tape, faults)["taint"]:
                continue
            out.append(c08.build_scenario(ir, tape, faults))
        return fam, out
    if fam == "NAT":
        return fam, [{"programs": [{"kind": "snippet", "source": nat_program(derive(seed, "C10-NAT", sub))}], "tape": [], "faults": {}}]
    if fam == "C09":
        sc = c09.PROP.generate(derive(seed, "C10-C09"), sub, "quick")
        src, modules = c09.render(sc["ir"])
        return fam, [{"programs": [{"kind": "snippet", "source": src}], "tape": sc["tape"], "faults": sc["faults"],
                      "fs": {k: {"source": v, "reads": []} for k, v in modules.items()}}]
    if fam == "C12":
        sc = c12.PROP.generate(derive(seed, "C10-C12"), sub, "quick")
        return fam, [{"programs": [{"kind": "snippet", "source": c12.render(sc["ir"])}], "tape": [], "faults": {}}]
    if fam == "C14":
        sc = c14.PROP.generate(derive(seed, "C10-C14"), sub + 5, "quick")      # (indices 0-4 are C14's fixed host-side cases)
        return fam, [{"programs": [{"kind": "snippet", "source": c14.render(sc["ir"])}], "tape": sc["tape"], "faults": sc["faults"],
                      "fs": c14.fs_of(sc["ir"])}]
    if fam == "C15":
        sseed = derive(seed, "C10-C15", sub)
        ir = c15.gen_session(sseed)
        plans = c15.PROP.plans_for(ir, sseed, "quick", Stats())
        rng = Rng(derive(sseed, "pick"))
        out = []
        for faults in [plans[0], plans[rng.below(len(plans))], plans[rng.below(len(plans))]]:
            progs, fs = c15.programs_of(ir)
            out.append({"programs": progs, "fs": fs, "tape": [], "faults": faults})
        return fam, out
    if fam == "C16":
        sc = c16.PROP.generate(derive(seed, "C10-C16"), sub + c16.N_NAT["quick"], "quick")
        ir = dict(sc["ir"])
        n = 120
        ir["n"] = n
        ir["spikes"] = [[w, min(m, 500), kd] for w, m, kd in ir["spikes"]]
        return fam, [{"programs": [{"kind": "snippet", "source": c16.render(ir, n)}], "tape": [], "faults": sc["faults"],
                      "fs": {"c16mod": {"source": c16.C16MOD, "reads": []}, "c16bad": {"source": c16.C16BAD, "reads": []}}, "config": {"max_events": 64}}]
    sc = c01.PROP.generate(derive(seed, "C10-C01"), sub + c01.PROP.n_foreign("quick"), "quick")      # (C01's first indices are corpus scripts and NAT programs: both are families of their own here)
    fs = {"gcm": {"source": c01.GCM, "reads": []}}
    for g_ in sc["ir"]["gadgets"]:
        if g_[0] == "modfail":
            fs["gcfail%d" % g_[1]] = {"source": c01.modfail_source(g_[1]), "reads": []}
    return fam, [{"programs": [{"kind": "snippet", "source": c01.render(sc["ir"])}], "tape": [], "faults": {}, "fs": fs}]


class C10:
    ID = "C10"
    LEVEL = "exploration"
    TIMEOUT = 90.0
    RULE = ("case = either one script of the repository's test corpus or of 7 boundary-value scripts of our own (all of them, every run; printed text and outcome compared, addresses "
            "normalised) or one generated scenario of the C08/C09/C12/C14/C15/C16/C01 generators (program(s) + decision tape + fault plan "
            "+ simulated file system) or of a generator that calls every built-in method and operator with awkward arguments (NAT); every case is executed in each build configuration of the tier and its typed event history, "
            "outcome kind and error messages must equal those of the checked build. non-trivial = the history has >= 3 events; "
            "distinct = distinct scenario hash. Configurations: quick = checked, release, release+safe_active_fiber+debug_stress_gc; "
            "thorough = those plus release with each safe_* switch alone, debug_stress_gc alone, all switches together, and dev")
    COMPONENTS = {"real": ["the whole yarel library, built without hooks in every configuration under test"],
                  "stub": ["printer / decision tape / fault-point native", "module loader (generated sources; for the corpus: the scripts' own module files)"]}
    ASSUMPTIONS = ["scenarios in the region of an open C08 known finding are not used (their behaviour includes stale handlers, which is not a configuration matter)",
                   "scripts that call clock() are skipped; object addresses in printed text and messages are normalised",
                   "a release-only divergence that needs a program shape none of the generators produces is not found; release-only memory corruption that leaves the history intact is invisible here"]

    def configs(self, tier):
        return QUICK_CONFIGS if tier == "quick" else THOROUGH_CONFIGS

    def plan(self, tier):
        ns = len(scripts()[0])
        return ns + (1400 if tier == "quick" else 140000)

    def wall_cap(self, tier):
        return 300 if tier == "quick" else 3300

    def generate(self, seed, idx, tier):
        ns = len(scripts()[0])
        if idx < ns:
            return {"case": "script", "index": idx, "tier": tier}
        return {"case": "generated", "gseed": seed, "gindex": idx - ns, "tier": tier}

    def expand(self, sc):
        if sc.get("case") == "script":
            lst, mods = scripts()
            name, src = lst[sc["index"]]
            return "script", [{"programs": [{"kind": "snippet", "source": src}], "tape": [], "faults": {}, "fs": mods,
                               "config": {"display": True}, "name": name}]
        if sc.get("case") == "generated":
            return generated(sc["gseed"], sc["gindex"])
        return sc.get("family", "replay"), [sc]

    def check(self, sc, ctx):
        stats = Stats()
        tier = sc.get("tier") or ctx.tier
        fam, runs = self.expand(sc)
        configs = self.configs(tier)
        keys = set()
        sample = None
        for one in runs:
            stats.inc("scenarios:" + fam)
            ref = None
            for config in configs:
                h = ctx.run(config, one)
                stats.inc("executions:" + config)
                po = process_outcome(h)
                cur = None
                if not po:
                    cur = [(norm_events(p["events"]), norm_outcome(p["outcome"])) for p in h["programs"]]
                if config == configs[0]:
                    ref = (po, cur)
                    if fam == "NAT" and not po and h["programs"][0]["outcome"].get("err") == "CompileError":
                        # every NAT statement is wrapped in try/catch; a program that does not compile is the generator's mistake
                        return {"stats": stats, "nontrivial": False, "invalid": "NAT program does not compile: %s" % json.dumps(h["programs"][0]["outcome"])[:200]}
                    if cur:
                        nev = sum(len(c[0]) for c in cur)
                        stats.inc("events", nev)
                        if nev >= 3:
                            keys.add(stable_hash(one.get("programs")))
                    continue
                v = None
                if po or ref[0]:
                    if (po and not ref[0]) or (ref[0] and not po) or (po and ref[0] and po[0] != ref[0][0]):
                        v = {"class": "process-outcome:%s->%s" % (ref[0][0] if ref[0] else "completes", po[0] if po else "completes"),
                             "msg": "%s: %s; %s: %s" % (configs[0], ref[0] or "completes", config, po or "completes")}
                    elif po and ref[0]:
                        # both abort the same way: that is C02's business, not a configuration difference
                        stats.inc("both_configs_abort")
                else:
                    for i, (a, bb) in enumerate(zip(ref[1], cur)):
                        if a[0] != bb[0]:
                            j = next((x for x in range(min(len(a[0]), len(bb[0]))) if a[0][x] != bb[0][x]), min(len(a[0]), len(bb[0])))
                            v = {"class": "history-differs", "msg": "program %d event %d: %s gives %s, %s gives %s" % (
                                i, j, configs[0], json.dumps(a[0][j] if j < len(a[0]) else None)[:200], config,
                                json.dumps(bb[0][j] if j < len(bb[0]) else None)[:200])}
                            break
                        if a[1] != bb[1]:
                            v = {"class": "outcome-differs", "msg": "program %d: %s ends with %s, %s with %s" % (
                                i, configs[0], json.dumps(a[1])[:250], config, json.dumps(bb[1])[:250])}
                            break
                    if v is None and len(ref[1]) != len(cur):
                        v = {"class": "history-differs", "msg": "%s ran %d programs, %s %d" % (configs[0], len(ref[1]), config, len(cur))}
                if v:
                    v["config"] = config
                    v["msg"] = "[%s/%s] %s" % (fam, one.get("name", ""), v["msg"])
                    rep = dict(one)
                    rep["family"] = fam
                    rep["tier"] = tier
                    return {"violation": v, "scenario": rep, "stats": stats, "nontrivial": True, "extra_keys": keys}
            if sample is None and fam != "script":
                sample = {"family": fam, "programs": [p.get("source", "<reset>")[-1500:] for p in one["programs"]][:3],
                          "faults": one.get("faults"), "tape_prefix": one.get("tape", [])[:16]}
        return {"stats": stats, "nontrivial": bool(keys), "extra_keys": keys, "sample": sample}

    def shrink(self, sc):
        # replay scenarios are concrete runner scenarios; shrink sessions by dropping programs, and fault plans by dropping faults
        if sc.get("case"):
            return
        progs = sc.get("programs", [])
        if len(progs) > 1:
            for i in range(len(progs) - 1, -1, -1):
                yield dict(sc, programs=progs[:i] + progs[i + 1:])
        faults = sc.get("faults") or {}
        for site in sorted(faults):
            yield dict(sc, faults={k: v for k, v in faults.items() if k != site})
        # line-based reduction of a single program
        if len(progs) == 1 and progs[0].get("source"):
            lines = progs[0]["source"].split("\n")
            n = len(lines)
            chunk = max(1, n // 8)
            while chunk >= 1:
                for lo in range(0, n, chunk):
                    cand = lines[:lo] + lines[lo + chunk:]
                    if cand:
                        yield dict(sc, programs=[dict(progs[0], source="\n".join(cand))])
                if chunk == 1:
                    break
                chunk //= 2

    def summarize(self, stats, tier):
        return {"scenarios_by_family": {k[len("scenarios:"):]: v for k, v in stats.items() if k.startswith("scenarios:")},
                "executions_by_configuration": {k[len("executions:"):]: v for k, v in stats.items() if k.startswith("executions:")},
                "logical_time": {"events_in_reference_histories": stats.get("events", 0)}}


PROP = C10()
