"""C08 - exceptions reach the innermost active handler; finally always runs.

Simulated: the real compiler (try/catch/finally code generation), the real VM unwinding, the real
native-error path. Stub: the fault-point native (the printer seam). A scenario is a generated nest of
handlers in which fault points are everywhere; the *fault plan* (which dynamic occurrence of which point
fails, and how) is drawn by the simulator independently of the program. Oracle: a reference interpreter
for the same nest written with Python's own try/except/finally.
"""
import json

from ..prng import Rng, derive
from ..values import num, s, cls, inst, tup, match, first_diff, ERROR_KINDS
from ..core import process_outcome, Stats, stable_hash

import os
MC_EVERY = int(os.environ.get("VERIF_MEMCHECK_EVERY", "128"))      # exploration knob: 1 = every case also runs under valgrind

# ---- fault kinds --------------------------------------------------------------------------------
# host kinds: the fault-point native returns Err(kind) -> must arrive as an instance of the class.
HOST_KINDS = ERROR_KINDS + ["CompileError"]
# op kinds: the native returns a number and the program performs a failing built-in operation.
OPS = {
    1: ("nil.foo;", "AttributeError"),
    2: ('1 + "a";', "TypeError"),
    3: ("[1][5];", "IndexError"),
    4: ("undefined_global_xyz;", "NameError"),
    5: ("fail_arity(1, 2);", "TypeError"),
    6: ('"abc".to_num();', "ValueError"),
    7: ("fail_rec(0);", "IndexError"),
    8: ("fail_fiber();", "RuntimeError"),
    9: ('import "no_such_module";', "ImportError"),
    10: ("var v = [1]; v[0.5];", "ValueError"),
    11: ("nil();", "TypeError"),
    12: ("Object.nothing();", "AttributeError"),
    13: ("5[0];", "TypeError"),
    14: ('[1]["a"];', "TypeError"),
    15: ('"abc"[7];', "IndexError"),
    16: ("var m = {[1]: 2};", "ValueError"),
    17: ("for x in 5 { }", "AttributeError"),
    18: ("[1].push();", "TypeError"),
    # raised in a closure that the core library's iterator classes call from inside a native `collect`
    19: ("[1, 2].iter().map(|x| { return nil.foo; }).collect();", "AttributeError"),
    20: ('[1, 2].iter().filter(|x| { return 1 + "a"; }).collect();', "TypeError"),
    21: ("(1, 2)[2];", "IndexError"),
    22: ('-"a";', "TypeError"),
    23: ('"${nil.foo}";', "AttributeError"),
    # failing conversions of long strings with a multi-byte character where an error message might cut the text
    24: ('("%s€uro").to_num();' % ("a" * 47), "ValueError"),
    25: ('("%s€").to_num();' % ("9" * 31), "ValueError"),
    26: ('("%sété").to_num();' % ("b" * 63), "ValueError"),
    27: ('("%s€").to_num();' % ("c" * 127), "ValueError"),
    28: ('("%s€x").to_num();' % ("d" * 255), "ValueError"),
}
ALL_KINDS = HOST_KINDS + ["op:%d" % k for k in sorted(OPS)]


def kind_class(kind):
    if kind.startswith("op:"):
        return OPS[int(kind[3:])][1]
    if kind == "CompileError":
        return "RuntimeError"
    return kind


PRELUDE = """fn fail_arity(a) { return a; }
fn fail_rec(n) { return fail_rec(n + 1); }
fn fail_fiber() { var f = Fiber.new(|| { return 1; }); f.call(); f.call(); }
#[constructor(new)] class Exc { }
#[derive(ValueError), constructor(new)] class SubErr { }
fn cyclic_error() { var ce = Error.new("c"); ce.context = ce; return ce; }
fn fail(k) {
  if k == nil { return nil; }
%s  return nil;
}
""" % "".join("  if k == %d { %s }\n" % (k, OPS[k][0]) for k in sorted(OPS))

# ---- known-finding switches ----------------------------------------------------------------------
# Every entry is a feature of the generator that is OFF while the finding is open. Pinned scenarios
# (findings/C08/*.json) are generated with exactly one of them ON.
OPEN_FEATURES = [
    "ret_nofinally",      # K-ret-nofinally: return inside a try block whose statement has no finally
    "ret_nested",         # K-ret-nested: return inside a try block nested in another try statement
    "ret_catch_fin",      # K-ret-catch: return inside the catch block of a statement with finally
    "brk_try",            # K-brk-try / K-cont-try: break/continue leaving a try block
    "finally_local",      # K-finally-local: local-declaring construct inside a finally block
    "throw_in_catch_fin", # K-throw-in-catch-finally: throw statement in catch block of stmt with finally
    "brk_locals",         # K-break-locals: break out of a loop body that has declared locals
    "leave_finally",      # break/continue/return leaving a finally block
]


# ---- generator ----------------------------------------------------------------------------------

def base_ctx(is_func=True):
    return dict(is_func=is_func, try_stack=[], in_catch_fin=False, fin_level=0, in_catch=False,
                loop=False, l_try=0, l_locals=0, l_catchfin=False, l_fin=0, locals=[])


class Gen:
    def __init__(self, rng, feats, knobs):
        self.r = rng
        self.f = feats
        self.k = knobs
        self.nid = 0
        self.sites = 0
        self.funcs = []
        self.whiles = []
        self.nmods = 0
        self.cur_mod = None
        self.clocal_ids = []       # (id, module) of every captured local: its closure is also published in a global

    def id(self):
        self.nid += 1
        return self.nid

    def site(self):
        self.sites += 1
        return "s%d" % self.sites

    def block(self, depth, ctx, budget, lo=1, hi=4):
        n = self.r.range(lo, hi)
        out = []
        for _ in range(n):
            if budget[0] <= 0:
                break
            out.append(self.stmt(depth, ctx, budget))
        return out

    def simple(self, ctx):
        r = self.r
        k = r.below(100)
        if k < 45:
            return ["chk", self.site()]
        if k < 52:
            return ["setg"]
        if k < 55:
            return ["lam", self.id()]
        if k < 57 and not ctx["in_catch_fin"] and ctx["fin_level"] == 0:
            # a function that calls ITSELF from inside its own try block, three activations deep; each activation then meets a
            # fault point inside its try block and has its own catch block
            # (sometimes 45 deep, with six locals per activation: the inner try blocks are entered more than 256 slots up the stack)
            return ["rectry", self.id(), self.id(), self.site(), r.choice([2, 2, 2, 44])]
        if k < 60:
            return ["evg", self.id()]
        if k < 62 and ctx.get("clocals"):
            return ["cinc", self.id(), r.choice(ctx["clocals"])]
        if k < 64:
            here = [v for v, m_ in self.clocal_ids if m_ == self.cur_mod]
            if here:
                # call a closure that some (possibly already abandoned) scope published: its variable must still be there
                return ["gcall", self.id(), r.choice(here)]
        if k < 68 and ctx["locals"]:
            return ["setl", r.choice(ctx["locals"])]
        if k < 80 and ctx["locals"]:
            return ["evl", self.id(), r.choice(ctx["locals"])]
        return ["ev", self.id()]

    def stmt(self, depth, ctx, budget):
        budget[0] -= 1
        r = self.r
        K = self.k
        k = r.below(100)
        if depth >= K["max_depth"] or k < 28:
            return self.simple(ctx)
        if k < 52:
            has_catch = r.chance(K["p_catch"])
            has_fin = (not has_catch) or r.chance(K["p_finally"])
            c_try = dict(ctx)
            c_try["try_stack"] = ctx["try_stack"] + [has_fin]
            c_try["l_try"] = ctx["l_try"] + 1
            c_try["locals"] = list(ctx["locals"])
            body = self.block(depth + 1, c_try, budget)
            cb = None
            fb = None
            if has_catch:
                c_c = dict(ctx)
                c_c["in_catch"] = True
                c_c["in_catch_fin"] = ctx["in_catch_fin"] or has_fin
                c_c["l_catchfin"] = ctx["l_catchfin"] or has_fin
                c_c["l_locals"] = ctx["l_locals"] + 1
                c_c["locals"] = list(ctx["locals"])
                cb = [["evexc", self.id()]] + self.block(depth + 1, c_c, budget, 0, 3)
                if r.chance(K["p_rethrow"]) and (not has_fin or self.f.get("throw_in_catch_fin")):
                    cb.append(["rethrow"])
                elif (ctx["loop"] and ctx["l_try"] == 0 and not has_fin and not ctx["l_catchfin"] and ctx["l_fin"] == 0
                      and r.chance(0.35)):
                    # handle the failed item and move on to the next iteration (the try statement has been left by then)
                    cb.append(["cont"])
            if has_fin:
                c_f = dict(ctx)
                c_f["fin_level"] = ctx["fin_level"] + 1
                c_f["l_fin"] = ctx["l_fin"] + 1
                c_f["locals"] = list(ctx["locals"])
                fb = [["ev", self.id()]] + self.block(depth + 1, c_f, budget, 0, 3)
                if r.chance(0.06):
                    fb = []          # `finally { }`: nothing to run, but the exit that was under way must still continue
            if cb is not None and r.chance(0.04):
                cb = []              # `catch e { }`
            return ["try", body, cb, fb]
        if k < 62:
            kind = "for" if r.chance(0.6) else "while"
            if ctx["fin_level"] > 0 and kind == "for" and not self.f.get("finally_local") and not self.k.get("finally_locals"):
                kind = "while"
            c_l = dict(ctx)
            c_l.update(loop=True, l_try=0, l_locals=0, l_catchfin=False, l_fin=0)
            c_l["locals"] = list(ctx["locals"])
            wid = None
            if kind == "while":
                wid = self.id()
                self.whiles.append(wid)
            return ["loop", kind, r.range(1, 3), self.block(depth + 1, c_l, budget), wid]
        if k < 68:
            return ["if", self.block(depth + 1, ctx, budget, 1, 3), self.block(depth + 1, ctx, budget, 0, 2)]
        if k < 78 and len(self.funcs) < K["max_funcs"] and depth < 3:
            fi = len(self.funcs)
            self.funcs.append(None)
            how = r.choice(["fn", "fn", "method", "lambda", "fiber"])
            fctx = base_ctx()
            saved_mod = self.cur_mod
            if self.cur_mod is None and r.chance(K["p_module"]):
                # the callee lives in an imported module (its own globals, its own prelude)
                self.cur_mod = self.nmods
                self.nmods += 1
            mod = self.cur_mod
            body = self.block(depth + 1, fctx, budget)
            self.cur_mod = saved_mod
            if r.chance(0.5):
                body.append(["ret", self.id()])
            self.funcs[fi] = {"how": how, "body": body, "mod": mod}
            return ["call", fi, self.id()]
        if k < 80 and self.funcs and depth < 3:
            # call an already generated function again (functions never call themselves: the callee
            # index is always lower than any function being generated, so no recursion)
            done = [i for i, f in enumerate(self.funcs) if f is not None and
                    (f.get("mod") == self.cur_mod or (self.cur_mod is None))]
            if done:
                return ["call", r.choice(done), self.id()]
            return self.simple(ctx)
        if k < 86:
            if ctx["in_catch_fin"] and not self.f.get("throw_in_catch_fin"):
                return self.simple(ctx)
            if r.chance(0.3):
                return ["failop", self.id(), r.choice([1, 2, 3, 4, 5, 6, 7, 8, 11, 12])]
            return ["throw", self.id(), r.choice(["s", "s", "n", "i", "t", "e", "z", "c"])]
        if k < 90:
            if ctx["fin_level"] > 0 and not self.f.get("finally_local") and not self.k.get("finally_locals"):
                return self.simple(ctx)
            v = self.id()
            c_b = dict(ctx)
            captured = r.chance(0.4)
            c_b["l_locals"] = ctx["l_locals"] + (2 if captured else 1)
            c_b["locals"] = ctx["locals"] + [v]
            if captured:
                c_b["clocals"] = ctx.get("clocals", []) + [v]
                self.clocal_ids.append((v, self.cur_mod))
            inner = self.block(depth + 1, c_b, budget)
            return ["clocal" if captured else "local", v, inner]
        if k < 100 - K["p_brk"]:
            return self.ret(ctx)
        return self.brk(ctx)

    def ret(self, ctx):
        ts = ctx["try_stack"]
        f = self.f
        ok = ctx["is_func"]
        if ctx["fin_level"] > 0 and not f.get("leave_finally"):
            ok = False
        if ctx["in_catch_fin"] and not f.get("ret_catch_fin"):
            ok = False
        if any(not x for x in ts) and not f.get("ret_nofinally"):
            ok = False
        if len(ts) >= 2 and not f.get("ret_nested"):
            ok = False
        if not ok:
            return self.simple(ctx)
        return ["ret", self.id() if self.r.chance(0.7) else None]

    def brk(self, ctx):
        f = self.f
        if not ctx["loop"]:
            return self.simple(ctx)
        if ctx["l_try"] > 0 and not f.get("brk_try"):
            return self.simple(ctx)
        if ctx["l_catchfin"] and not f.get("ret_catch_fin"):
            return self.simple(ctx)
        if ctx["l_fin"] > 0 and not f.get("leave_finally"):
            return self.simple(ctx)
        if self.r.chance(0.5):
            if ctx["l_locals"] > 0 and not f.get("brk_locals"):
                return ["cont"]
            return ["brk"]
        return ["cont"]


def gen_nest(seed, feats=None):
    rng = Rng(seed)
    feats = feats or {}
    knobs = {
        "max_depth": rng.range(3, 5),
        "p_catch": rng.choice([0.5, 0.7, 0.9]),
        "p_finally": rng.choice([0.3, 0.5, 0.8]),
        "p_rethrow": rng.choice([0.0, 0.15, 0.3]),
        "max_funcs": rng.range(0, 4),
        "p_module": rng.choice([0.0, 0.3, 0.6]),
        # variables declared inside finally blocks (K-finally-local only bites when the block is entered by an exception:
        # the model taints exactly those entries)
        "finally_locals": rng.chance(0.5),
        "p_brk": rng.choice([4, 8, 14]),
    }
    g = Gen(rng, feats, knobs)
    budget = [rng.range(8, 40)]
    wrap = rng.choice(["fn", "fn", "fiber", "method", "script"])
    main = g.block(0, base_ctx(is_func=(wrap != "script")), budget, 2, 5)
    if rng.chance(1.0 / 120):
        # boundary sizes: a try block and a catch block that are each within the 16-bit jump/handler operands but whose
        # sum is not, with a `return` (or a fault) inside the try block, called from a protected region of main
        a, b = rng.choice([(20000, 20000), (30000, 3000), (3000, 31000), (16380, 16380), (32000, 700)])
        fi = len(g.funcs)
        body = [["try", [["pad", a], ["chk", g.site()], ["ret", g.id()]],
                 [["evexc", g.id()], ["pad", b], ["chk", g.site()]], [["ev", g.id()]]]]
        g.funcs.append({"how": "fn", "body": body, "mod": None})
        main = [["try", [["call", fi, g.id()], ["chk", g.site()], ["throw", g.id(), "s"]], [["evexc", g.id()]], None]] + main
    if rng.chance(1.0 / 40):
        # a `return` taken while the try block has live variables of its own, through a finally block that declares and uses
        # variables of its own (the two sets of stack slots must not overlap)
        fi = len(g.funcs)
        inner = [["chk", g.site()], ["ret", g.id()]]
        if rng.chance(0.4):
            inner = [["loop", "for", 2, inner, None]]
        body = [["try", [["local", g.id(), [["local", g.id(), inner]] if rng.chance(0.5) else inner]], None,
                 [["local", g.id(), [["local", g.id(), [["ev", g.id()]]], ["ev", g.id()]]]]], ["ev", g.id()]]
        g.funcs.append({"how": rng.choice(["fn", "fn", "method", "fiber"]), "body": body, "mod": None})
        main = [["try", [["call", fi, g.id()], ["ev", g.id()]], [["evexc", g.id()]], None]] + main
    edge = False
    if rng.chance(1.0 / 100):
        # the very edge: a try block whose distance to its catch / finally block is the largest the 16-bit handler operands
        # can express (65535 bytes with 32753 two-byte pads plus one three-byte pad in this template), and the two sizes below
        # (distance 65536 cannot be encoded: the compiler may refuse such a program, but if it accepts it, it must run correctly)
        a, odd = rng.choice([(32754, False), (32753, True), (32753, True), (32752, True), (32753, False)])
        pads = [["pad", a]] + ([["pad1"]] if odd else [])
        fi = len(g.funcs)
        if rng.chance(0.5):
            body = [["try", pads + [["chk", g.site()], ["throw", g.id(), "s"]], [["evexc", g.id()]], None], ["ev", g.id()]]
        else:
            body = [["try", pads + [["chk", g.site()], ["throw", g.id(), "s"]], None, [["ev", g.id()]]], ["ev", g.id()]]
        edge = True
    if rng.chance(1.0 / 80):
        # a loop whose backward jump is within a few bytes of the largest distance its 16-bit operand can express: either the
        # compiler refuses the program or the loop runs as written
        kind = rng.choice(["for", "while"])
        odd = rng.chance(0.5)
        # (measured for this template: the largest padding the compiler accepts is 32755 / 32754+1 for `for`, 32748 / 32746+1 for
        # `while`; the sizes just beyond must be refused, the ones just within must run)
        top = {("for", False): 32755, ("for", True): 32754, ("while", False): 32748, ("while", True): 32746}[(kind, odd)]
        a = top + rng.choice([-2, -1, 0, 0, 1, 1, 2])
        pads = [["pad", a]] + ([["pad1"]] if odd else [])
        fi = len(g.funcs)
        wid = g.id() if kind == "while" else None
        if wid is not None:
            g.whiles.append(wid)
        body = [["loop", kind, 2, pads + [["ev", g.id()]], wid], ["ev", g.id()]]
        g.funcs.append({"how": "fn", "body": body, "mod": None})
        main = [["try", [["call", fi, g.id()], ["ev", g.id()]], [["evexc", g.id()]], None]] + main
        edge = True
        g.funcs.append({"how": "fn", "body": body, "mod": None})
        main = [["try", [["call", fi, g.id()], ["ev", g.id()]], [["evexc", g.id()]], None]] + main
    funcs = [f if f is not None else {"how": "fn", "body": [], "mod": None} for f in g.funcs]
    return {"main": main, "funcs": funcs, "sites": g.sites, "whiles": g.whiles, "wrap": wrap, "nmods": g.nmods,
            "escapes": [[v, m_] for v, m_ in g.clocal_ids], "edge": edge}


# ---- renderer -----------------------------------------------------------------------------------

class RenderError(Exception):
    pass


def render(ir):
    return render_all(ir)[0]


def gv_init(mod):
    return 1000 if mod is None else 2000 + 100 * mod


def render_all(ir):
    """Returns (main source, {module path: source})."""
    out = []

    def emit(line, ind):
        out.append("  " * ind + line)

    uid = [0]

    def block(b, ind, env):
        for st in b:
            stmt(st, ind, env)

    def stmt(st, ind, env):
        k = st[0]
        if k == "ev":
            emit('print(("ev", %d));' % st[1], ind)
        elif k == "evexc":
            if not env["exc"]:
                raise RenderError("evexc outside catch")
            emit('print(("ev", %d, type(%s), %s));' % (st[1], env["exc"], env["exc"]), ind)
        elif k == "rethrow":
            if not env["exc"]:
                raise RenderError("rethrow outside catch")
            emit("throw %s;" % env["exc"], ind)
        elif k == "chk":
            emit('fail(print(("chk", "%s")));' % st[1], ind)
        elif k == "throw":
            v = {"s": '"t%d"' % st[1], "n": "%d" % st[1], "i": "Exc.new()", "e": "SubErr.new()", "z": "nil", "c": "cyclic_error()", "t": '("tt", %d)' % st[1]}[st[2]]
            emit("throw %s;" % v, ind)
        elif k == "failop":
            emit("{ %s }" % OPS[st[2]][0], ind)
        elif k == "try":
            emit("try {", ind)
            block(st[1], ind + 1, dict(env, locals=list(env["locals"])))
            emit("}", ind)
            if st[2] is not None:
                uid[0] += 1
                e = "e%d" % uid[0]
                emit("catch %s {" % e, ind)
                block(st[2], ind + 1, dict(env, exc=e, locals=list(env["locals"])))
                emit("}", ind)
            if st[3] is not None:
                emit("finally {", ind)
                block(st[3], ind + 1, dict(env, exc=None, locals=list(env["locals"])))
                emit("}", ind)
        elif k == "loop":
            if st[1] == "for":
                uid[0] += 1
                emit("for i%d in 0..%d {" % (uid[0], st[2]), ind)
                block(st[3], ind + 1, dict(env, locals=list(env["locals"])))
                emit("}", ind)
            else:
                w = "w%d" % st[4]
                emit("%s = 0;" % w, ind)
                emit("while %s < %d {" % (w, st[2]), ind)
                emit("%s = %s + 1;" % (w, w), ind + 1)
                block(st[3], ind + 1, dict(env, locals=list(env["locals"])))
                emit("}", ind)
        elif k == "if":
            emit('if print(("pick", 2)) == 1 {', ind)
            block(st[1], ind + 1, dict(env, locals=list(env["locals"])))
            emit("} else {", ind)
            block(st[2], ind + 1, dict(env, locals=list(env["locals"])))
            emit("}", ind)
        elif k == "call":
            fi = st[1]
            if fi >= len(ir["funcs"]):
                raise RenderError("unknown function")
            how = ir["funcs"][fi]["how"]
            cmod = ir["funcs"][fi].get("mod")
            if cmod is not None and cmod != env["mod"]:
                if env["mod"] is not None:
                    raise RenderError("call from one module into another")
                q = "mod%d." % cmod
            elif cmod is None and env["mod"] is not None:
                raise RenderError("module code calling a function of main")
            else:
                q = ""
            call = {"fn": "%sf%d()" % (q, fi), "lambda": "%sf%d()" % (q, fi), "method": "%sK%d.new().m()" % (q, fi),
                    "fiber": "Fiber.new(%sf%d).call()" % (q, fi)}[how]
            emit('print(("ev", %d, %s));' % (st[2], call), ind)
        elif k == "pad":
            # bytecode padding (each `nil;` is two bytes): sizes the try / catch blocks up to the 16-bit operand limits
            emit(" ".join(["nil;"] * st[1]), ind)
        elif k == "pad1":
            emit("!nil;", ind)      # three bytes: changes the parity of the padding
        elif k == "rectry":
            emit("{", ind)
            deep = len(st) > 4 and st[4] > 2
            # (the deep variant keeps six try statements open per activation: some 270 handlers are live at the bottom)
            pre = "try { try { try { try { try { " if deep else ""
            post = (" } catch eo1 { print((\"ev\", %d, n, \"outer1\")); } } catch eo2 { print((\"ev\", %d, n, \"outer2\")); } } catch eo3 { print((\"ev\", %d, n, \"outer3\")); } }"
                    " catch eo4 { print((\"ev\", %d, n, \"outer4\")); } } catch eo5 { print((\"ev\", %d, n, \"outer5\")); }" % ((st[2],) * 5)) if deep else ""
            emit("fn rt%d(n) { var q0 = n; var q1 = n + 1; var q2 = [n]; var q3 = q1; var q4 = q0; var q5 = 5; %s"
                 "try { print((\"ev\", %d, n)); if n > 0 { rt%d(n - 1); } fail(print((\"chk\", \"%s\"))); print((\"ev\", %d, n, \"ok\", q0, q2[0])); } "
                 "catch erec { print((\"ev\", %d, n, type(erec), q0, q1 + q3 + q4 + q5)); }%s return n; }" % (
                st[1], pre, st[1], st[1], st[3], st[2], st[2], post), ind + 1)
            emit("rt%d(%d);" % (st[1], st[4] if len(st) > 4 else 2), ind + 1)
            emit("}", ind)
        elif k == "lam":
            # a lambda expression compiled in the middle of whatever block this is (a nested function for the compiler)
            emit('print(("ev", %d, (|q| { return q + 1; })(%d)));' % (st[1], st[1]), ind)
        elif k == "setg":
            emit("gv = gv + 1;", ind)
        elif k == "evg":
            emit('print(("ev", %d, gv));' % st[1], ind)
        elif k == "local":
            emit("{", ind)
            emit("var l%d = %d;" % (st[1], st[1] * 7), ind + 1)
            block(st[2], ind + 1, dict(env, locals=env["locals"] + [st[1]]))
            emit('print(("ev", %d, l%d));' % (st[1], st[1]), ind + 1)
            emit("}", ind)
        elif k == "clocal":
            # a local captured by a (non-escaping) closure: the variable is an open captured variable on the stack
            emit("{", ind)
            emit("var l%d = %d;" % (st[1], st[1] * 7), ind + 1)
            emit("var inc%d = || { l%d = l%d + 1; return l%d; };" % (st[1], st[1], st[1], st[1]), ind + 1)
            if any(v_ == st[1] for v_, _m in ir.get("escapes", [])):
                emit("gesc%d = inc%d;" % (st[1], st[1]), ind + 1)
            block(st[2], ind + 1, dict(env, locals=env["locals"] + [st[1]], clocals=env.get("clocals", []) + [st[1]]))
            emit('print(("ev", %d, l%d, inc%d()));' % (st[1], st[1], st[1]), ind + 1)
            emit("}", ind)
        elif k == "gcall":
            if not any(v_ == st[2] and m_ == env["mod"] for v_, m_ in ir.get("escapes", [])):
                raise RenderError("escaped closure not declared in this module")
            emit('if gesc%d != nil { print(("ev", %d, gesc%d())); } else { print(("ev", %d, "unset")); }' % (st[2], st[1], st[2], st[1]), ind)
        elif k == "cinc":
            if st[2] not in env.get("clocals", []):
                raise RenderError("captured local not visible")
            emit('print(("ev", %d, inc%d()));' % (st[1], st[2]), ind)
        elif k == "setl":
            if st[1] not in env["locals"]:
                raise RenderError("local not visible")
            emit("l%d = l%d + 1;" % (st[1], st[1]), ind)
        elif k == "evl":
            if st[2] not in env["locals"]:
                raise RenderError("local not visible")
            emit('print(("ev", %d, l%d));' % (st[1], st[2]), ind)
        elif k == "ret":
            if not env["is_func"]:
                raise RenderError("return at top level")
            if st[1] is None:
                emit("return;", ind)
            elif st[1] % 2 == 1:
                emit('return [%d, ("r", %d)];' % (st[1], st[1]), ind)      # a fresh heap object in flight
            else:
                emit("return %d;" % st[1], ind)
        elif k == "brk":
            if not env["loop_ok"]:
                raise RenderError("break outside loop")
            emit("break;", ind)
        elif k == "cont":
            if not env["loop_ok"]:
                raise RenderError("continue outside loop")
            emit("continue;", ind)
        else:
            raise RenderError("unknown statement %r" % (k,))

    check_loops(ir)
    nmods = ir.get("nmods", 0)
    fenv = dict(exc=None, locals=[], is_func=True, loop_ok=True, mod=None)

    def emit_funcs(mod):
        for i, f in enumerate(ir["funcs"]):
            if f.get("mod") != mod:
                continue
            env = dict(fenv, mod=mod)
            if f["how"] == "method":
                emit("#[constructor(new)] class K%d {" % i, 0)
                emit("fn m(self) {", 1)
                block(f["body"], 2, env)
                emit("}", 1)
                emit("}", 0)
            elif f["how"] == "lambda":
                emit("var f%d = || {" % i, 0)
                block(f["body"], 1, env)
                emit("};", 0)
            else:
                emit("fn f%d() {" % i, 0)
                block(f["body"], 1, env)
                emit("}", 0)

    modules = {}
    for m in range(nmods):
        out = []
        out.append(PRELUDE)
        emit("var gv = %d;" % gv_init(m), 0)
        for v_, m_ in ir.get("escapes", []):
            if m_ == m:
                emit("var gesc%d = nil;" % v_, 0)
        for w in ir.get("whiles", []):
            emit("var w%d = 0;" % w, 0)
        emit_funcs(m)
        modules["mod%d" % m] = "\n".join(out) + "\n"
    out = []
    out.append(PRELUDE)
    emit("var gv = %d;" % gv_init(None), 0)
    for v_, m_ in ir.get("escapes", []):
        if m_ is None:
            emit("var gesc%d = nil;" % v_, 0)
    for m in range(nmods):
        emit('import "mod%d";' % m, 0)
    for w in ir.get("whiles", []):
        emit("var w%d = 0;" % w, 0)
    emit_funcs(None)
    wrap = ir.get("wrap", "fn")
    if wrap == "script":
        block(ir["main"], 0, dict(fenv, is_func=False))
        emit('print(("ev", 0, nil));', 0)
    elif wrap == "method":
        emit("#[constructor(new)] class Main {", 0)
        emit("fn run(self) {", 1)
        block(ir["main"], 2, dict(fenv))
        emit("}", 1)
        emit("}", 0)
        emit('print(("ev", 0, Main.new().run()));', 0)
    else:
        emit("fn main() {", 0)
        block(ir["main"], 1, dict(fenv))
        emit("}", 0)
        if wrap == "fiber":
            emit('print(("ev", 0, Fiber.new(main).call()));', 0)
        else:
            emit('print(("ev", 0, main()));', 0)
    # tail probe: every try statement has been left by now, so nothing may intercept this
    emit('throw "tail-probe";', 0)
    return "\n".join(out) + "\n", modules


def check_loops(ir):
    """break/continue must be lexically inside a loop of the same function (else: compile error)."""
    def walk(b, in_loop):
        for st in b:
            k = st[0]
            if k in ("brk", "cont") and not in_loop:
                raise RenderError("break/continue outside loop")
            if k == "try":
                walk(st[1], in_loop)
                if st[2] is not None:
                    walk(st[2], in_loop)
                if st[3] is not None:
                    walk(st[3], in_loop)
            elif k == "loop":
                walk(st[3], True)
            elif k == "if":
                walk(st[1], in_loop)
                walk(st[2], in_loop)
            elif k in ("local", "clocal"):
                walk(st[2], in_loop)
    walk(ir["main"], False)
    for f in ir["funcs"]:
        walk(f["body"], False)


# ---- reference model ----------------------------------------------------------------------------

class Thrown(Exception):
    def __init__(self, enc_type, enc_val, needle):
        self.enc_type = enc_type
        self.enc_val = enc_val
        self.needle = needle


class Ret(Exception):
    def __init__(self, v):
        self.v = v


class Brk(Exception):
    pass


class Cont(Exception):
    pass


class Fatal(Exception):
    """An exception that no handler of the *same fiber* caught: the run ends."""
    def __init__(self, needle):
        self.needle = needle


def ret_enc(v):
    if v is None:
        return None
    if v % 2 == 1:
        return {"v": [num(v), tup(s("r"), num(v))]}
    return num(v)


def thrown_for_kind(kind, site):
    c = kind_class(kind)
    return Thrown(cls(c), inst(c), c)


def model(ir, tape, faults):
    ev = []
    occ = {}
    tp = [0]
    fired = []
    points = []          # every dynamic fault point evaluated, in order: (site, occurrence, context)
    taint = set()
    pend_exc = [0]
    pend_ret = [0]
    probes = Stats()
    cur_ctx = ["body"]
    escaped = {}        # id -> cell of the captured variable whose closure was published
    G = {None: [gv_init(None)]}
    for m_ in range(ir.get("nmods", 0)):
        G[m_] = [gv_init(m_)]

    def pick(m):
        if tp[0] < len(tape):
            x = tape[tp[0]]
            tp[0] += 1
        else:
            x = 0
        return x % m

    def block(b, env):
        for st in b:
            stmt(st, env)

    def stmt(st, env):
        k = st[0]
        if k == "ev":
            ev.append([num(st[1])])
        elif k == "evexc":
            t = env["exc"]
            ev.append([num(st[1]), t.enc_type, t.enc_val])
        elif k == "rethrow":
            raise env["exc"]
        elif k == "chk":
            o = occ.get(st[1], 0) + 1
            occ[st[1]] = o
            points.append((st[1], o, cur_ctx[0], env["depth"]))
            kd = faults.get(st[1], {}).get(str(o))
            if kd:
                fired.append((st[1], o, kd))
                probes.inc("fault_in:" + cur_ctx[0])
                probes.inc("fault_kind:" + kd)
                probes.inc("fault_depth:%d" % min(env["depth"], 4))
                raise thrown_for_kind(kd, st[1])
        elif k == "throw":
            vk = st[2]
            probes.inc("throw_stmt")
            if vk == "s":
                raise Thrown(cls("String"), s("t%d" % st[1]), "t%d" % st[1])
            if vk == "n":
                raise Thrown(cls("Num"), num(st[1]), "%d" % st[1])
            if vk == "i":
                raise Thrown(cls("Exc"), inst("Exc"), "Unhandled Exc: <Exc instance")
            if vk == "c":
                # an Error whose context is the error itself: whoever reports it must not follow the chain for ever
                raise Thrown(cls("Error"), inst("Error"), "Unhandled Error: <Error instance")
            if vk == "z":
                raise Thrown(cls("Nil"), None, "Unhandled exception: nil")      # any value can be thrown, nil too
            if vk == "e":
                # an instance of a program-declared subclass of a built-in error class: reported under its own class
                raise Thrown(cls("SubErr"), inst("SubErr"), "Unhandled SubErr: <SubErr instance")
            raise Thrown(cls("Tuple"), tup(s("tt"), num(st[1])), "(tt, %d)" % st[1])
        elif k == "failop":
            c = OPS[st[2]][1]
            probes.inc("failop_stmt")
            raise Thrown(cls(c), inst(c), c)
        elif k == "try":
            do_try(st, env)
        elif k == "loop":
            for _ in range(st[2]):
                try:
                    block(st[3], env)
                except Brk:
                    probes.inc("break")
                    break
                except Cont:
                    probes.inc("continue")
                    continue
        elif k == "if":
            if pick(2) == 1:
                block(st[1], env)
            else:
                block(st[2], env)
        elif k == "call":
            f = ir["funcs"][st[1]]
            fenv = dict(exc=None, locals={}, depth=env["depth"] + 1, mod=f.get("mod"))
            if f.get("mod") is not None:
                probes.inc("call_into_module")
            saved = cur_ctx[0]
            try:
                block(f["body"], fenv)
                r = None
            except Ret as rr:
                r = ret_enc(rr.v)
            except Thrown as t:
                if f["how"] == "fiber":
                    # uncaught inside the callee's own fiber: no handler of another fiber may see it
                    probes.inc("uncaught_in_child_fiber")
                    raise Fatal(t.needle)
                raise
            finally:
                cur_ctx[0] = saved
            ev.append([num(st[2]), r])
        elif k == "local":
            env2 = dict(env)
            env2["locals"] = dict(env["locals"])
            cell = [st[1] * 7]
            env2["locals"][st[1]] = cell
            block(st[2], env2)
            ev.append([num(st[1]), num(cell[0])])
        elif k == "clocal":
            env2 = dict(env)
            env2["locals"] = dict(env["locals"])
            cell = [st[1] * 7]
            env2["locals"][st[1]] = cell
            escaped[st[1]] = cell
            block(st[2], env2)
            ev.append([num(st[1]), num(cell[0]), num(cell[0] + 1)])
            cell[0] += 1
        elif k == "gcall":
            if st[2] in escaped:
                escaped[st[2]][0] += 1
                probes.inc("published_closure_called")
                ev.append([num(st[1]), num(escaped[st[2]][0])])
            else:
                ev.append([num(st[1]), s("unset")])
        elif k == "cinc":
            probes.inc("captured_local_bumped")
            env["locals"][st[2]][0] += 1
            ev.append([num(st[1]), num(env["locals"][st[2]][0])])
        elif k in ("pad", "pad1"):
            pass
        elif k == "rectry":
            probes.inc("recursion_through_a_try_block")
            top = st[4] if len(st) > 4 else 2
            if top > 2:
                probes.inc("try_blocks_entered_more_than_256_slots_up_the_stack")
            for n_ in range(top, -1, -1):
                ev.append([num(st[1]), num(n_)])
            for n_ in range(0, top + 1):
                try:
                    stmt(["chk", st[3]], env)
                    ev.append([num(st[2]), num(n_), s("ok"), num(n_), num(n_)])
                except Thrown as t_:
                    if pend_exc[0] > 0:
                        # reached from a finally block that runs with a pending exception: a catch that catches clears the VM-wide flag
                        taint.add("K-try-inside-pending-finally")
                    ev.append([num(st[2]), num(n_), t_.enc_type, num(n_), num(3 * n_ + 7)])
        elif k == "lam":
            ev.append([num(st[1]), num(st[1] + 1)])
        elif k == "setg":
            G[env["mod"]][0] += 1
        elif k == "evg":
            ev.append([num(st[1]), num(G[env["mod"]][0])])
        elif k == "setl":
            env["locals"][st[1]][0] += 1
        elif k == "evl":
            ev.append([num(st[1]), num(env["locals"][st[2]][0])])
        elif k == "ret":
            raise Ret(st[1])
        elif k == "brk":
            raise Brk()
        elif k == "cont":
            raise Cont()
        else:
            raise RenderError("unknown statement %r" % (k,))

    def do_try(st, env):
        body, cb, fb = st[1], st[2], st[3]
        # K-try-inside-pending-finally: the pending exception is one VM-wide flag and the pending return one slot per
        # fiber. An inner statement WITH a finally clause consults/consumes them at its EndFinally; an inner catch that
        # actually catches something clears the flag. An inner try/catch that completes without catching touches neither.
        inside_pending = pend_exc[0] > 0 or pend_ret[0] > 0
        if inside_pending and fb is not None:
            taint.add("K-try-inside-pending-finally")
        if inside_pending:
            probes.inc("try_catch_entered_inside_pending_finally")
        probes.inc("try_entered")
        saved = cur_ctx[0]
        exc = None
        from_body = True
        try:
            try:
                cur_ctx[0] = "try"
                block(body, env)
            except Thrown as t:
                if cb is None:
                    raise
                from_body = False
                if pend_exc[0] > 0:
                    taint.add("K-try-inside-pending-finally")
                probes.inc("handler_entered")
                cur_ctx[0] = "catch"
                try:
                    block(cb, dict(env, exc=t))
                except Thrown:
                    if fb is not None:
                        taint.add("K-throw-in-catch-finally")
                    raise
                except (Brk, Cont, Ret):
                    if fb is not None:
                        taint.add("K-leave-catch-with-finally")
                    raise
        except (Thrown, Ret, Brk, Cont) as e:
            exc = e
        if fb is not None:
            cur_ctx[0] = "finally"
            if isinstance(exc, Thrown):
                probes.inc("finally_by:exception")
                if declares_locals(fb):
                    taint.add("K-finally-local")
                pend_exc[0] += 1
                try:
                    block(fb, dict(env, exc=None))
                finally:
                    pend_exc[0] -= 1
            elif isinstance(exc, Ret):
                probes.inc("finally_by:return")
                if pend_ret[0] > 0:
                    taint.add("K-return-inside-return-finally")
                pend_ret[0] += 1
                try:
                    block(fb, dict(env, exc=None))
                except (Brk, Cont, Ret):
                    taint.add("unspecified-leave-finally")
                    raise
                except Thrown:
                    taint.add("K-throw-in-return-finally")
                    raise
                finally:
                    pend_ret[0] -= 1
            elif isinstance(exc, (Brk, Cont)):
                probes.inc("finally_by:break_continue")
                taint.add("K-brk-cont-try")
                block(fb, dict(env, exc=None))
            else:
                probes.inc("finally_by:fallthrough")
                try:
                    block(fb, dict(env, exc=None))
                except (Brk, Cont, Ret):
                    taint.add("unspecified-leave-finally")
                    raise
        elif from_body:
            if isinstance(exc, Ret):
                taint.add("K-ret-nofinally")
            if isinstance(exc, (Brk, Cont)):
                taint.add("K-brk-cont-try")
        cur_ctx[0] = saved
        if exc is not None:
            raise exc

    outcome = {"ok": True}
    env0 = dict(exc=None, locals={}, depth=0, mod=None)
    try:
        try:
            block(ir["main"], env0)
            r = None
        except Ret as rr:
            r = ret_enc(rr.v)
        ev.append([num(0), r])
        outcome = {"uncaught": "tail-probe"}
    except Thrown as t:
        outcome = {"uncaught": t.needle}
        probes.inc("uncaught")
    except Fatal as f:
        outcome = {"uncaught": f.needle}
    return {"events": ev, "outcome": outcome, "fired": fired, "taint": taint, "points": points, "probes": probes}


# ---- scenario construction ----------------------------------------------------------------------

def build_scenario(ir, tape, faults, extra=None):
    src, modules = render_all(ir)
    sc = {"ir": ir, "tape": tape, "faults": faults,
          "programs": [{"kind": "snippet", "source": src}],
          "fs": {p_: {"source": t_, "reads": []} for p_, t_ in modules.items()}}
    if extra:
        sc.update(extra)
    return sc


def compare(exp, hist):
    po = process_outcome(hist)
    if po:
        return {"class": po[0], "msg": po[1]}
    prog = hist["programs"][0]
    act = prog["events"]
    out = prog["outcome"]
    d = first_diff(exp["events"], act)
    if d is not None:
        i, e, a = d
        return {"class": "trace", "msg": "event %d: expected %s got %s" % (i, json.dumps(e), json.dumps(a)),
                "detail": {"expected_tail": exp["events"][max(0, i - 3):i + 2], "actual_tail": act[max(0, i - 3):i + 2],
                           "actual_outcome": out}}
    if exp["outcome"].get("ok"):
        if not out.get("ok"):
            return {"class": "outcome", "msg": "expected normal completion, got %s" % json.dumps(out)[:300]}
    else:
        if "err" not in out:
            return {"class": "outcome", "msg": "expected the run to end with an uncaught exception naming %r, got %s" % (
                exp["outcome"]["uncaught"], json.dumps(out)[:300])}
        msgs = out.get("messages") or [""]
        if exp["outcome"]["uncaught"] not in msgs[0]:
            return {"class": "outcome", "msg": "uncaught exception message %r does not name the thrown value %r" % (
                msgs[0], exp["outcome"]["uncaught"])}
    return None


class C08:
    ID = "C08"
    LEVEL = "fault_enumeration"
    TIMEOUT = 20.0
    RULE = ("case = one generated nest of try/catch/finally + loops + functions/methods/lambdas/fibers (seeded); for each nest: the "
            "fault-free run, EVERY single-fault placement (each dynamic fault point on the fault-free path fails once, kinds "
            "rotating over host ErrorKinds and failing built-in operations) when the path has <= MAX_ENUM points, plus sampled "
            "multi-fault plans whose later faults are placed on points reached only after the earlier fault (inside catch/"
            "finally/after recovery); every plan runs in the checked and the release profile. distinct_nontrivial = distinct "
            "(nest, plan) hashes among executions that fired >= 1 fault or executed >= 1 throw 1/128 of the plans also run on the optimised build collecting at every allocation under valgrind memcheck.")
    COMPONENTS = {"real": ["yarel compiler", "yarel VM (unwind_stack, JumpFinally/EndFinally, call_native error path)",
                           "yarel core library error classes", "fiber switch for fiber-wrapped callees"],
                  "stub": ["fault-point native installed through Vm::set_printer (returns Err(kind) or an op code on the simulator's say-so)",
                           "decision tape for `if` branches"]}
    ASSUMPTIONS = ["reference semantics of try/catch/finally/return/break/continue are Python's",
                   "scenarios matching an open known finding (known_findings.json) are not generated (static predicates) or are executed but not compared (dynamic taints, counted)",
                   "error message text is not compared except that an uncaught exception must name the thrown value"]
    MAX_ENUM = 40

    def configs(self, tier):
        return ["checked", "release", "checked+hooks", "release+debug_stress_gc"]

    def plan(self, tier):
        return 6000 if tier == "quick" else 300000

    def wall_cap(self, tier):
        return 240 if tier == "quick" else 3300

    def generate(self, seed, idx, tier):
        nseed = derive(seed, "C08", idx)
        return {"case": "nest", "nest_seed": nseed, "feats": {}, "tier": tier}

    # -- one case = one nest with many plans
    def plans_for(self, ir, nseed, tier, stats):
        rng = Rng(derive(nseed, "plans"))
        tape0 = [rng.below(2) for _ in range(64)]
        base = model(ir, tape0, {})
        plans = [(tape0, {})]
        pts = [(p[0], p[1]) for p in base["points"]]
        if len(pts) <= self.MAX_ENUM:
            stats.inc("nests_fully_enumerated")
            chosen = pts
        else:
            chosen = [pts[i] for i in sorted(set(rng.below(len(pts)) for _ in range(self.MAX_ENUM)))]
        for j, (site, o) in enumerate(chosen):
            kind = ALL_KINDS[(j + nseed) % len(ALL_KINDS)]
            plans.append((tape0, {site: {str(o): kind}}))
        stats.inc("single_fault_placements", len(chosen))
        nmulti = 4 if tier == "quick" else 10
        for _ in range(nmulti):
            tape = [rng.below(2) for _ in range(64)]
            faults = {}
            nf = rng.range(2, 4)
            after = 0
            for _f in range(nf):
                m = model(ir, tape, faults)
                cand = [(p[0], p[1]) for p in m["points"][after:] if str(p[1]) not in faults.get(p[0], {})]
                if not cand:
                    break
                # bias towards points just after the previous fault (recovery code)
                site, o = cand[min(rng.below(len(cand)), rng.below(len(cand)))] if rng.chance(0.6) else rng.choice(cand)
                faults.setdefault(site, {})[str(o)] = rng.choice(ALL_KINDS)
                m2 = model(ir, tape, faults)
                # index of the point at which the new fault fired
                after = 0
                for i, p in enumerate(m2["points"]):
                    if p[0] == site and p[1] == o:
                        after = i + 1
                        break
            plans.append((tape, faults))
        return plans

    def check(self, sc, ctx):
        stats = Stats()
        if sc.get("case") == "nest":
            ir = gen_nest(sc["nest_seed"], sc.get("feats"))
            try:
                render(ir)
            except RenderError:
                stats.inc("nests_unrenderable")
                return {"stats": stats, "nontrivial": False}
            stats.inc("nests")
            stats.inc("wrap:" + ir["wrap"])
            for f in ir["funcs"]:
                stats.inc("callee:" + f["how"])
            plans = self.plans_for(ir, sc["nest_seed"], sc.get("tier", "quick"), stats)
            keys = set()
            sample = None
            taints = []
            for tape, faults in plans:
                one = build_scenario(ir, tape, faults)
                res = self.check_one(one, ctx, stats)
                if res.get("violation"):
                    return {"violation": res["violation"], "scenario": one, "stats": stats, "nontrivial": True,
                            "key": res["key"], "taints": taints}
                taints += res.get("taints", [])
                if res.get("nontrivial"):
                    keys.add(res["key"])
                if sample is None and faults and not res.get("taints"):
                    sample = {"source": one["programs"][0]["source"], "faults": faults, "tape": tape[:8],
                              "expected_events": res["exp_events"], "expected_outcome": res["exp_outcome"]}
            stats.inc("distinct_plans_nontrivial", len(keys))
            # one key per case is what core counts; fold the per-plan distinct count into the counters
            return {"stats": stats, "nontrivial": bool(keys), "key": stable_hash(sorted(keys)), "taints": taints,
                    "sample": sample, "extra_keys": keys}
        return self.check_one(sc, ctx, stats, top=True)

    def check_one(self, sc, ctx, stats, top=False):
        ir = sc["ir"]
        try:
            src, modules = render_all(ir)
        except RenderError as e:
            return {"stats": stats, "nontrivial": False, "invalid": str(e)}
        exp = model(ir, sc["tape"], sc["faults"])
        sc = dict(sc)
        sc["programs"] = [{"kind": "snippet", "source": src}]
        sc["fs"] = {p_: {"source": t_, "reads": []} for p_, t_ in modules.items()}
        key = stable_hash([ir, sc["faults"], sc["tape"]])
        nontrivial = bool(exp["fired"]) or exp["probes"].get("throw_stmt", 0) > 0 or exp["probes"].get("failop_stmt", 0) > 0
        stats.merge(exp["probes"])
        stats.inc("plans")
        stats.inc("faults_fired", len(exp["fired"]))
        stats.inc("events_expected", len(exp["events"]))
        res = {"stats": stats, "nontrivial": nontrivial, "key": key, "exp_events": exp["events"][:40],
               "exp_outcome": exp["outcome"], "scenario": sc}
        tainted = sorted(exp["taint"])
        if tainted and not sc.get("ignore_taint"):
            res["taints"] = tainted
            stats.inc("plans_tainted")
            # executed (must not crash the harness) but not compared
            h = ctx.run("checked", sc)
            stats.inc("executions")
            return res
        runs = [("checked", None), ("release", None)]
        if key % 8 == 0 or sc.get("force_gc_slice"):
            # a slice of the plans also runs with collect-at-every-allocation + quarantine: values in flight (thrown objects,
            # returned objects parked while a finally block runs) must survive
            runs.append(("checked+hooks", {"gc": {"mode": "always", "quarantine": True}}))
        if key % MC_EVERY == 1 % MC_EVERY or sc.get("force_mc_slice"):
            # ... and a smaller one in the optimised build collecting at every allocation, under valgrind
            runs.append(("release+debug_stress_gc@memcheck", None))
        for config, cfg in runs:
            h = ctx.run(config, dict(sc, config=cfg) if cfg else sc)
            stats.inc("executions")
            stats.inc("executions:" + config)
            if ir.get("edge") and "crash" not in h and "hang" not in h and h["programs"][0]["outcome"].get("err") == "CompileError" \
                    and not h["programs"][0]["events"]:
                stats.inc("edge_size_program_refused_by_the_compiler")      # not a run: nothing to compare
                continue
            v = compare(exp, h)
            if v and config.endswith("@memcheck"):
                res["scenario"] = dict(res.get("scenario", sc), force_mc_slice=True)
            if v is None and cfg and (h.get("gc") or {}).get("uar_count", 0) > 0:
                v = {"class": "use-after-reclaim", "msg": "value in flight reclaimed: %s" % json.dumps(h["gc"].get("uar", [])[:2])}
            if v:
                v["config"] = config
                v["msg"] = "[%s] %s" % (config, v["msg"])
                res["violation"] = v
                return res
            if len(h.get("faults_fired", [])) != len(exp["fired"]):
                res["violation"] = {"class": "fault-accounting", "config": config,
                                    "msg": "[%s] faults fired %s, model fired %s" % (config, h.get("faults_fired"), exp["fired"])}
                return res
        return res

    def shrink(self, sc):
        if "ir" not in sc:
            # a nest case: expand is done by check(); nothing to shrink at this level
            return
        ir = sc["ir"]
        faults = sc["faults"]
        # 1. drop faults
        for site in sorted(faults):
            for o in sorted(faults[site]):
                f2 = {s_: dict(m) for s_, m in faults.items()}
                del f2[site][o]
                if not f2[site]:
                    del f2[site]
                yield dict(sc, faults=f2)
        # 2. structural shrinks
        for ir2 in shrink_ir(ir):
            yield dict(sc, ir=ir2)
        # 3. simplify fault kinds
        for site in sorted(faults):
            for o in sorted(faults[site]):
                if faults[site][o] != "ValueError":
                    f2 = {s_: dict(m) for s_, m in faults.items()}
                    f2[site][o] = "ValueError"
                    yield dict(sc, faults=f2)
        if any(sc["tape"]):
            yield dict(sc, tape=[0] * len(sc["tape"]))

    def summarize(self, stats, tier):
        kinds = {k[len("fault_kind:"):]: v for k, v in stats.items() if k.startswith("fault_kind:")}
        return {"faults_fired_by_kind": kinds,
                "faults_fired_by_position": {k[len("fault_in:"):]: v for k, v in stats.items() if k.startswith("fault_in:")},
                "finally_entered_by": {k[len("finally_by:"):]: v for k, v in stats.items() if k.startswith("finally_by:")},
                "logical_time": {"events": stats.get("events_expected", 0), "plans": stats.get("plans", 0)},
                "tainted_plans_not_compared": {k[len("tainted:"):]: v for k, v in stats.items() if k.startswith("tainted:")},
                "distinct_plans_nontrivial": stats.get("distinct_plans_nontrivial", 0)}


def declares_locals(block):
    """does this block (recursively, without entering callees) declare a local variable or a catch variable?"""
    for st in block:
        k = st[0]
        if k in ("local", "clocal"):
            return True
        if k == "loop" and st[1] == "for":
            return True
        if k == "try" and st[2] is not None:
            return True
        for bi in blocks_of(st):
            if declares_locals(st[bi]):
                return True
    return False


def blocks_of(st):
    k = st[0]
    if k == "try":
        return [i for i in (1, 2, 3) if st[i] is not None]
    if k == "loop":
        return [3]
    if k == "if":
        return [1, 2]
    if k in ("local", "clocal"):
        return [2]
    return []


def shrink_ir(ir):
    """Yields structurally smaller variants of the IR (one edit each)."""
    import copy

    roots = [("main", None)] + [("funcs", i) for i in range(len(ir["funcs"]))]

    def get_root(doc, root):
        return doc["main"] if root[0] == "main" else doc["funcs"][root[1]]["body"]

    def paths(block, prefix):
        for i, st in enumerate(block):
            yield prefix + [i]
            for bi in blocks_of(st):
                yield from paths(st[bi], prefix + [i, bi])

    def resolve(block, path):
        # path alternates: stmt index, block index, stmt index, ...
        cur = block
        parent = None
        for j in range(0, len(path) - 1, 2):
            cur = cur[path[j]][path[j + 1]]
        return cur, path[-1]

    for root in roots:
        base = get_root(ir, root)
        for p in list(paths(base, [])):
            # delete the statement
            d = copy.deepcopy(ir)
            blk, i = resolve(get_root(d, root), p)
            st = blk[i]
            del blk[i]
            yield d
            # hoist sub-blocks in place of the statement
            for bi in blocks_of(st):
                d = copy.deepcopy(ir)
                blk, i = resolve(get_root(d, root), p)
                st2 = blk[i]
                blk[i:i + 1] = st2[bi]
                yield d
            if st[0] == "try":
                if st[2] is not None and st[3] is not None:
                    for drop in (2, 3):
                        d = copy.deepcopy(ir)
                        blk, i = resolve(get_root(d, root), p)
                        blk[i][drop] = None
                        yield d
            if st[0] == "loop" and st[2] > 1:
                d = copy.deepcopy(ir)
                blk, i = resolve(get_root(d, root), p)
                blk[i][2] = 1
                yield d
            if st[0] == "call":
                d = copy.deepcopy(ir)
                blk, i = resolve(get_root(d, root), p)
                blk[i] = ["ev", st[2]]
                yield d
    if ir.get("wrap") != "fn":
        d = copy.deepcopy(ir)
        d["wrap"] = "fn"
        yield d
    for i, f in enumerate(ir["funcs"]):
        if f["how"] != "fn":
            d = copy.deepcopy(ir)
            d["funcs"][i]["how"] = "fn"
            yield d


PROP = C08()
