"""C09 - fibers transfer control and values faithfully and keep their own state.

The scheduler is the simulator: a generated program has 2-5 fibers whose bodies come from a small statement
language; wherever the driver or a fiber body transfers control, *which* fiber is resumed, with *what* value,
with how many arguments, and whether an illegal transfer is attempted, is read from the decision tape at run
time (the tape is drawn from the PRNG and stored in the scenario). Oracle: a coroutine reference model, one
Python generator per fiber. Every scenario runs in the checked and in the release profile (the raw active-fiber
pointer and the unchecked value stack exist only in release); a slice also runs under the hook build with
collect-at-every-allocation + quarantine (suspended stacks and caller chains under GC).
"""
import json

from ..prng import Rng, derive
from ..values import num, s, b, cls, anyof, first_diff, ERROR_KINDS
from ..core import process_outcome, Stats, stable_hash

import os
MC_EVERY = int(os.environ.get("VERIF_MEMCHECK_EVERY", "100"))      # exploration knob: 1 = every case also runs under valgrind

M = 1000003

HELPERS = """fn h1(me, v) { var loc = v + 1; var got = Fiber.yield(loc); print(("ev", "h1", me, loc)); return got; }
fn h2(me, v) { var loc = v + 2; var got = h1(me, loc); print(("ev", "h2", me, loc)); return got; }
fn h3(me, v) { var loc = v + 3; var got = h2(me, loc); print(("ev", "h3", me, loc)); return got; }
fn worker(first) {
  var a = first; gtick = gtick + 1;
  var got = Fiber.yield(a); gtick = gtick + 1;
  got = Fiber.yield(gtick);
  return got;
}
"""
MIX = "fn mix(a, b) { if b == nil { b = 0; } if type(b) == Vec { b = b[0] + 1; } return (a * 31 + b) %% %d; }\n" % M
HM_GTICK0 = 500000


class Gen:
    def __init__(self, rng, nf, knobs):
        self.r = rng
        self.nid = 0
        self.nf = nf
        self.sites = 0
        self.k = knobs

    def id(self):
        self.nid += 1
        return self.nid

    def site(self):
        self.sites += 1
        return "s%d" % self.sites

    def block(self, depth, budget, top=False):
        out = []
        r = self.r
        for _ in range(r.range(1, 5)):
            if budget[0] <= 0:
                break
            budget[0] -= 1
            k = r.below(100)
            if k < 7:
                out.append(["mix"])
            elif k < 9:
                out.append(["cd", self.id()])
            elif k < 11:
                out.append(["md", self.id()])
            elif k < 12:
                out.append(["rf", self.id()])
            elif k < 22:
                out.append(["ev", self.id()])
            elif k < 40:
                out.append(["yield", r.weighted([(3, False), (5, True), (2, "vec"), (2, "nil")])])
            elif k < 48:
                out.append(["helper", r.range(1, 3), self.id()])
            elif k < 62:
                out.append(["call", self.id()])
            elif k < 69 and depth < 2:
                out.append(["loop", r.range(1, 3), self.block(depth + 1, budget)])
            elif k < 73:
                out.append(["ctr", self.id()])
            elif k < 76:
                out.append(["shared", self.id()])
            elif k < 78:
                out.append(["xbump", self.id()])
            elif k < 86:
                if r.chance(0.2):
                    out.append(["tf", self.id(), self.site()])
                elif r.chance(0.2):
                    out.append(["tfc", self.id(), self.site()])
                else:
                    out.append(["tc", self.id(), r.choice(["yield", "call", "throw", "none", "yield2"]), self.site()])
            elif k < 89:
                out.append(["isfin", self.id()])
            elif k < 92 and self.k["chk"]:
                out.append(["chk", self.site()])
            elif k < 93 and self.k["throw"]:
                out.append(["throw", self.id()])
            elif k < 96 and top:
                out.append(["ret"])
            elif k < 97 and top:
                out.append(["retfy", self.id()])
            elif k < 98:
                out.append(["rf", self.id()])
            else:
                out.append(["mix"])
        return out


def gen_ir(seed):
    rng = Rng(seed)
    nf = rng.range(2, 5)
    knobs = {"chk": rng.chance(0.5), "throw": rng.chance(0.3)}
    g = Gen(rng, nf, knobs)
    fibers = []
    for _ in range(nf):
        body = g.block(0, [rng.range(5, 18)], top=True)
        if rng.chance(0.5):
            # long-lived fiber: the whole body repeats
            body = [["loop", rng.range(2, 5), body]]
        fibers.append({"param": rng.below(2), "body": body, "kind": "gen"})
    hmod = rng.chance(0.4)
    if rng.chance(0.4):
        # a fiber whose whole body is a function of the helper module (finishes from a foreign module's frame)
        fibers[rng.below(nf)] = {"param": 1, "body": [], "kind": "worker"}
    # some programs have created and abandoned a few hundred short-lived fibers (suspended / never started) before the
    # scenario proper starts: "a bounded number of fibers" bounds the ones alive at once, not the ones ever created
    crowd = rng.choice([0, 0, 0, 0, 0, 0, 0, 300, 600])
    ir = {"fibers": fibers, "steps": rng.range(8, 45), "wrap": rng.chance(0.25), "sites": g.sites, "hmod": hmod, "crowd": crowd}
    if rng.chance(1.0 / 12):
        # before the scenario proper: a generator started at the bottom of a chain of 3-6 nested fibers, each of them some 50 calls
        # deep (a fiber has 64 frames of its own), yields all the way out; resumed from the shallow driver it recurses ~50 deep
        # itself: how deep a fiber may recurse is its own business, not that of whoever happened to call it first
        ir["deepgen"] = [rng.range(3, 6), rng.range(40, 55), rng.range(30, 55)]
    return ir


def render(ir):
    out = []
    nf = len(ir["fibers"])
    wrap = ir.get("wrap", False)

    def emit(line, ind=0):
        out.append("  " * ind + line)

    lid = [0]

    def call_block(ind, evid, me_expr, target_inbox):
        emit("{", ind)
        emit('var t = print(("pick", %d)); var m = print(("pick", 5)); var v = print(("pick", 1000));' % nf, ind + 1)
        emit("try {", ind + 1)
        emit("var r = nil;", ind + 2)
        emit("if m == 0 { r = fibers[t].call(); } else if m == 3 { r = fibers[t].call(v, v); } else if m == 4 { r = fibers[t].call(nil); } else if m == 2 { r = fibers[t].call([v]); } else { r = fibers[t].call(v); }", ind + 2)
        if target_inbox:
            emit("inbox = r;", ind + 2)
        emit("gtick = gtick + 1;", ind + 2)
        emit('print(("ev", %d, %s, "nret", t, r, gtick));' % (evid, me_expr), ind + 2)
        emit("} catch e {", ind + 1)
        emit("gtick = gtick + 1;", ind + 2)
        emit('print(("ev", %d, %s, "nerr", t, type(e), gtick));' % (evid, me_expr), ind + 2)
        if target_inbox:
            emit("inbox = nil;", ind + 2)
        emit("}", ind + 1)
        emit("}", ind)

    def block(bl, ind):
        for st in bl:
            k = st[0]
            if k == "mix":
                emit("acc = mix(acc, inbox);", ind)
            elif k == "ev":
                emit('print(("ev", %d, me, acc, inbox));' % st[1], ind)
            elif k == "yield":
                emit("inbox = Fiber.yield([acc]);" if st[1] == "vec" else ("inbox = Fiber.yield(nil);" if st[1] == "nil" else ("inbox = Fiber.yield(acc);" if st[1] else "inbox = Fiber.yield();")), ind)
            elif k == "helper":
                emit("inbox = %sh%d(me, acc);" % (hq, st[1]), ind)
                emit("gtick = gtick + 1;", ind)
                emit('print(("ev", %d, me, acc, inbox, gtick));' % st[2], ind)
            elif k == "call":
                call_block(ind, st[1], "me", True)
            elif k == "loop":
                lid[0] += 1
                emit("for i%d in 0..%d {" % (lid[0], st[1]), ind)
                block(st[2], ind + 1)
                emit("}", ind)
            elif k == "ret":
                emit("return acc;", ind)
            elif k == "ctr":
                emit('print(("ev", %d, me, "ctr", bump()));' % st[1], ind)
            elif k == "shared":
                emit("shared = shared + 1;", ind)
                emit('print(("ev", %d, me, "sh", shared));' % st[1], ind)
            elif k == "cd":
                # the frame and the closure use the same variable, on both sides of every suspension
                emit("c = c + 10;", ind)
                emit('print(("ev", %d, me, "cd", c, bump(), c));' % st[1], ind)
            elif k == "md":
                emit("mine = [mine[0] + 100];", ind)
                emit('print(("ev", %d, me, "md", mine[0]));' % st[1], ind)
            elif k == "rf":
                # a frame that is returning suspends in its finally block; the return completes after the resume
                emit('{ var got = rfh(acc); print(("ev", %d, me, "rf", got, inbox)); }' % st[1], ind)
            elif k == "retfy":
                emit("try {", ind)
                emit("return acc;", ind + 1)
                emit("} finally {", ind)
                emit("inbox = Fiber.yield(acc + 9);", ind + 1)
                emit('print(("ev", %d, me, "retfy", inbox));' % st[1], ind + 1)
                emit("}", ind)
                emit('print(("ev", %d, me, "retfy-fell-through"));' % st[1], ind)
            elif k == "xbump":
                # call the counter closure another fiber instance exported (its variable lives on that fiber's stack
                # while it is suspended, in the closed cell once it has finished or been dropped)
                emit('{ var xt = print(("pick", %d)); if exports[xt] != nil { print(("ev", %d, me, "xb", xt, exports[xt]())); } else { print(("ev", %d, me, "xb-none", xt)); } }' % (
                    nf, st[1], st[1]), ind)
            elif k == "tf":
                emit("try {", ind)
                emit("inbox = Fiber.yield(acc);", ind + 1)
                emit('print(("chk", "%s"));' % st[2], ind + 1)
                emit("} finally {", ind)
                emit('print(("ev", %d, me, "tf-finally", acc));' % st[1], ind + 1)
                emit("}", ind)
            elif k == "tfc":
                # a fiber switch inside a finally block, possibly while an exception is propagating through it
                emit("try {", ind)
                emit('print(("chk", "%s"));' % st[2], ind + 1)
                emit("} finally {", ind)
                emit('print(("ev", %d, me, "tfc", fibers[print(("pick", %d))].call()));' % (st[1], nf), ind + 1)
                emit("}", ind)
            elif k == "chk":
                emit('print(("chk", "%s"));' % st[1], ind)
            elif k == "throw":
                emit('throw "u%d";' % st[1], ind)
            elif k == "isfin":
                emit('print(("ev", %d, me, "fin", fibers[print(("pick", %d))].has_finished()));' % (st[1], nf), ind)
            elif k == "tc":
                emit("try {", ind)
                inner = st[2]
                if inner == "yield":
                    emit("inbox = Fiber.yield(acc);", ind + 1)
                elif inner == "yield2":
                    emit("inbox = Fiber.yield(acc, acc);", ind + 1)
                elif inner == "call":
                    call_block(ind + 1, st[1], "me", True)
                elif inner == "throw":
                    emit('throw "x%d";' % st[1], ind + 1)
                emit('print(("chk", "%s"));' % st[3], ind + 1)
                emit('print(("ev", %d, me, "tc-ok", acc));' % st[1], ind + 1)
                emit("} catch e {", ind)
                emit('print(("ev", %d, me, "tc", type(e), acc));' % st[1], ind + 1)
                emit("}", ind)
            else:
                raise ValueError(k)

    hmod = ir.get("hmod", False)
    hq = "hm." if hmod else ""
    modules = {}
    if hmod:
        modules["hm"] = "var gtick = %d;\n" % HM_GTICK0 + HELPERS
        out.append("var gtick = 0;\n" + MIX + 'import "hm";\n')
    else:
        out.append("var gtick = 0;\n" + HELPERS + MIX)
    if ir.get("deepgen"):
        emit("var dgen = nil;")
        emit("fn drec(n, k) { if n == 0 { return k(); } return drec(n - 1, k); }")
        emit("fn dlevel(d, r, q) {")
        emit("if d == 0 { dgen = Fiber.new(|| { var got = Fiber.yield(1); return drec(q, || { return got + q; }); }); return dgen.call(); }", 1)
        emit("var f = Fiber.new(|| { return drec(r, || { return dlevel(d - 1, r, q) + 1; }); }); return f.call();", 1)
        emit("}")
    emit("fn driver() {")
    emit("var shared = 0;", 1)
    emit("var fibers = [];", 1)
    emit("var exports = [%s];" % ", ".join("nil" for _ in range(nf)), 1)
    for i, f in enumerate(ir["fibers"]):
        if f.get("kind") == "worker":
            emit("var mk%d = |me| { return %sworker; };" % (i, hq), 1)
            continue
        emit("var mk%d = |me| {" % i, 1)
        emit("return |%s| {" % ("first" if f["param"] else ""), 2)
        emit("var acc = %d; var inbox = %s; var c = 0; var bump = || { c = c + 1; return c; };" % (
            i + 1, "first" if f["param"] else "nil"), 3)
        emit("var mine = [0]; exports[me] = || { mine = [mine[0] + 1]; return mine[0]; };", 3)
        emit('var rfh = |x| { try { return [x]; } finally { inbox = Fiber.yield(x + 7); } print(("ev", "rf-fell-through", me)); return -1; };', 3)
        block(f["body"], 3)
        emit("};", 2)
        emit("};", 1)
    if ir.get("deepgen"):
        emit('print(("ev", "deepgen", dlevel(%d, %d, %d), dgen.call(5), dgen.has_finished()));' % tuple(ir["deepgen"]), 1)
    if ir.get("crowd"):
        emit("var crowd = 0;", 1)
        emit("for q in 0..%d { var tf = Fiber.new(|x| { var got = Fiber.yield(x + 1); return got; }); if q %% 2 == 0 { crowd = crowd + tf.call(q); } }" % ir["crowd"], 1)
        emit('print(("ev", "crowd", crowd));', 1)
    emit("var mks = [%s];" % ", ".join("mk%d" % i for i in range(nf)), 1)
    for i in range(nf):
        emit("fibers.push(Fiber.new(mks[%d](%d)));" % (i, i), 1)
    emit("for step in 0..%d {" % ir["steps"], 1)
    emit('var a = print(("pick", 12));', 2)
    emit("if a < 9 {", 2)
    call_block(3, 0, '"drv"', False)
    emit("} else if a == 9 {", 2)
    emit('var t = print(("pick", %d));' % nf, 3)
    emit("fibers[t] = Fiber.new(mks[t](t));", 3)
    emit('print(("ev", "drop", t));', 3)
    emit("} else if a == 10 {", 2)
    emit('var q = print(("pick", 4));', 3)
    emit('if q < 2 { print(("ev", "fin", fibers[print(("pick", %d))].has_finished())); }' % nf, 3)
    emit('else if q == 2 { try { Fiber.new(|x, y| { return x; }); print(("ev", "badnew-made")); } catch e { print(("ev", "badnew", type(e))); } }', 3)
    emit('else { try { Fiber.new(fibers[print(("pick", %d))]); print(("ev", "badnew-made")); } catch e { print(("ev", "badnew", type(e))); } }' % nf, 3)
    emit("} else {", 2)
    if wrap:
        emit('print(("ev", "noop"));', 3)
    else:
        emit('var keep = a + 100;', 3)
        emit('try { Fiber.yield(keep); print(("ev", "topyield-returned")); } catch e { print(("ev", "topyield", type(e), keep, a)); }', 3)
        emit('print(("ev", "topyield-after", keep, a));', 3)
    emit("}", 2)
    emit("}", 1)
    emit('print(("ev", "shared", shared));', 1)
    # epilogue: the final state of every fiber and of every exported counter
    emit("for fi in 0..%d {" % nf, 1)
    emit('var cnt = nil; if exports[fi] != nil { cnt = exports[fi](); }', 2)
    emit('print(("ev", "final", fi, fibers[fi].has_finished(), cnt));', 2)
    emit("}", 1)
    emit("return 77;", 1)
    emit("}")
    if wrap:
        emit('print(("ev", "done", Fiber.new(driver).call()));')
    else:
        emit('print(("ev", "done", driver()));')
    return "\n".join(out) + "\n", modules


# ---- reference model ------------------------------------------------------------------------------

class FErr(Exception):
    def __init__(self, classes):
        self.classes = classes


class Thrown(Exception):
    def __init__(self, klass, needle):
        self.klass = klass
        self.needle = needle


class Fatal(Exception):
    def __init__(self, needle):
        self.needle = needle


def enc(x):
    if x is None:
        return None
    if isinstance(x, tuple):
        return {"v": [num(x[1])]}        # a fresh vector travelling between fibers
    return num(x)


def model(ir, tape, faults, chooser=None):
    """Interprets the scenario. With `chooser` (tape generation) every decision is made by the simulator's
    scheduler, which can see the fibers' states, and is recorded into `tape`; without it decisions are read
    from the tape (execution / replay)."""
    ev = []
    tp = [0]
    nf = len(ir["fibers"])
    occ = {}
    fired = []
    probes = Stats()
    transfers = []   # (from, to, kind)
    shared = [0]
    wrap = ir.get("wrap", False)
    gtick = {"main": 0, "hm": HM_GTICK0 if ir.get("hmod") else None}

    def tick(mod="main"):
        if gtick[mod] is None:
            mod = "main"
        gtick[mod] += 1
        return gtick[mod]


    def pick(m, purpose=None, info=None):
        if chooser is not None:
            x = chooser(m, purpose, info, state, ir)
            tape.append(x)
            tp[0] += 1
            return x % m
        if tp[0] < len(tape):
            x = tape[tp[0]]
            tp[0] += 1
        else:
            x = 0
        return x % m

    def chk(site):
        o = occ.get(site, 0) + 1
        occ[site] = o
        kd = faults.get(site, {}).get(str(o))
        if kd:
            fired.append((site, o, kd))
            probes.inc("fault_kind:" + kd)
            raise Thrown("RuntimeError" if kd == "CompileError" else kd, "RuntimeError" if kd == "CompileError" else kd)

    taint = set()
    pend = [0]                # > 0 while a finally block that runs because of an exception is making a fiber call
    exports = [None] * nf     # counter cell of the fiber instance that last ran its export statement
    state = ["new"] * nf      # new, susp, active (running or waiting for a callee), fin
    gens = [None] * nf
    depth = [0]

    def mixf(a, bb):
        if bb is None:
            bb = 0
        if isinstance(bb, tuple):
            bb = bb[1] + 1
        return (a * 31 + bb) % M

    def do_call(frm, t, m, v):
        nargs = 0 if m == 0 else (2 if m == 3 else 1)      # m == 4: one argument, and it is nil
        f = ir["fibers"][t]
        if state[t] == "new":
            if nargs != f["param"]:
                probes.inc("illegal:first_call_arity")
                raise FErr(["TypeError"])
        elif nargs > 1:
            probes.inc("illegal:two_args")
            raise FErr(["TypeError", "RuntimeError"] if state[t] == "active" else ["TypeError"])
        if state[t] == "fin":
            probes.inc("illegal:call_finished")
            raise FErr(["RuntimeError"])
        if state[t] == "active":
            probes.inc("illegal:reentry_self" if t == frm else "illegal:reentry_waiting")
            raise FErr(["RuntimeError", "TypeError"])
        arg = (("vec", v) if m == 2 else (None if m == 4 else v)) if nargs == 1 else None
        if m == 4:
            probes.inc("transfer:call_with_explicit_nil")
        if m == 2:
            probes.inc("transfer:call_with_heap_value")
        depth[0] += 1
        probes.max("nesting_depth", depth[0])
        try:
            if state[t] == "new":
                probes.inc("transfer:first_call")
                transfers.append((frm, t, "first"))
                gens[t] = body(t, arg)
                state[t] = "active"
                try:
                    y = next(gens[t])
                except StopIteration as stop:
                    state[t] = "fin"
                    probes.inc("transfer:return_to_caller")
                    return stop.value
                state[t] = "susp"
                return y
            probes.inc("transfer:resume_with_value" if nargs == 1 else "transfer:resume_without_value")
            transfers.append((frm, t, "resume"))
            state[t] = "active"
            try:
                y = gens[t].send(arg)
            except StopIteration as stop:
                state[t] = "fin"
                probes.inc("transfer:return_to_caller")
                return stop.value
            state[t] = "susp"
            return y
        finally:
            depth[0] -= 1

    def worker_body(me, first):
        wm = "hm" if ir.get("hmod") else "main"
        tick(wm)
        probes.inc("transfer:yield_from_module_function" if wm == "hm" else "transfer:yield_with_value")
        got = yield first
        g = tick(wm)
        got = yield g
        probes.inc("finish_from_module_function" if wm == "hm" else "finish_worker")
        return got

    def body(me, first):
        f = ir["fibers"][me]
        if f.get("kind") == "worker":
            r = yield from worker_body(me, first)
            return r
        st8 = {"acc": me + 1, "inbox": first if f["param"] else None}
        c = [0]
        mine = [0]
        exports[me] = mine

        def call_stmt(evid):
            if pend[0] > 0:
                taint.add("K-try-inside-pending-finally")       # the call block is a try/catch statement
            t = pick(nf, "target", me)
            m = pick(5, "mode", t)
            v = pick(1000, "value")
            try:
                r = do_call(me, t, m, v)
                st8["inbox"] = r
                ev.append([num(evid), num(me), s("nret"), num(t), enc(r), num(tick())])
            except FErr as e:
                ev.append([num(evid), num(me), s("nerr"), num(t), anyof(*[cls(c_) for c_ in e.classes]), num(tick())])
                st8["inbox"] = None

        def run(bl):
            for st in bl:
                k = st[0]
                if k == "mix":
                    st8["acc"] = mixf(st8["acc"], st8["inbox"])
                elif k == "ev":
                    ev.append([num(st[1]), num(me), num(st8["acc"]), enc(st8["inbox"])])
                elif k == "yield":
                    probes.inc("transfer:yield_with_heap_value" if st[1] == "vec" else ("transfer:yield_with_explicit_nil" if st[1] == "nil" else (
                        "transfer:yield_with_value" if st[1] else "transfer:yield_without_value")))
                    st8["inbox"] = yield (("vec", st8["acc"]) if st[1] == "vec" else (None if st[1] == "nil" else (st8["acc"] if st[1] else None)))
                elif k == "helper":
                    d = st[1]
                    locs = []
                    v = st8["acc"]
                    for lvl in range(d, 0, -1):
                        v = v + lvl
                        locs.append((lvl, v))
                    probes.inc("transfer:yield_from_frame_depth_%d" % d)
                    got = yield locs[-1][1]
                    for lvl, lv in reversed(locs):
                        ev.append([s("h%d" % lvl), num(me), num(lv)])
                    st8["inbox"] = got
                    ev.append([num(st[2]), num(me), num(st8["acc"]), enc(st8["inbox"]), num(tick())])
                elif k == "call":
                    call_stmt(st[1])
                elif k == "loop":
                    for _ in range(st[1]):
                        r = yield from run(st[2])
                        if r is not None:
                            return r
                elif k == "ret":
                    return ("ret", st8["acc"])
                elif k == "ctr":
                    c[0] += 1
                    ev.append([num(st[1]), num(me), s("ctr"), num(c[0])])
                elif k == "shared":
                    shared[0] += 1
                    ev.append([num(st[1]), num(me), s("sh"), num(shared[0])])
                elif k == "cd":
                    c[0] += 10
                    probes.inc("captured_variable_written_by_frame_and_closure")
                    ev.append([num(st[1]), num(me), s("cd"), num(c[0]), num(c[0] + 1), num(c[0] + 1)])
                    c[0] += 1
                elif k == "md":
                    mine[0] += 100
                    ev.append([num(st[1]), num(me), s("md"), num(mine[0])])
                elif k == "rf":
                    probes.inc("transfer:yield_inside_finally_of_returning_frame")
                    x = st8["acc"]
                    if pend[0] > 0:
                        taint.add("K-try-inside-pending-finally")
                    st8["inbox"] = yield x + 7
                    if pend[0] > 0:
                        taint.add("K-try-inside-pending-finally")
                    ev.append([num(st[1]), num(me), s("rf"), enc(("vec", x)), enc(st8["inbox"])])
                elif k == "retfy":
                    probes.inc("transfer:yield_inside_finally_of_returning_fiber_body")
                    if pend[0] > 0:
                        taint.add("K-try-inside-pending-finally")
                    st8["inbox"] = yield st8["acc"] + 9
                    if pend[0] > 0:
                        taint.add("K-try-inside-pending-finally")
                    ev.append([num(st[1]), num(me), s("retfy"), enc(st8["inbox"])])
                    return ("ret", st8["acc"])
                elif k == "xbump":
                    xt = pick(nf, "export")
                    if exports[xt] is not None:
                        exports[xt][0] += 1
                        probes.inc("captured_variable_of_other_fiber_bumped:" + state[xt])
                        ev.append([num(st[1]), num(me), s("xb"), num(xt), num(exports[xt][0])])
                    else:
                        ev.append([num(st[1]), num(me), s("xb-none"), num(xt)])
                elif k == "tf":
                    # (not Python's try/finally around the yield: closing an abandoned generator would run it,
                    # whereas an abandoned suspended fiber never runs its finally block)
                    probes.inc("transfer:yield_inside_try_finally")
                    if pend[0] > 0:
                        taint.add("K-try-inside-pending-finally")
                    st8["inbox"] = yield st8["acc"]
                    if pend[0] > 0:
                        taint.add("K-try-inside-pending-finally")
                    try:
                        chk(st[2])
                    finally:
                        ev.append([num(st[1]), num(me), s("tf-finally"), num(st8["acc"])])
                elif k == "tfc":
                    if pend[0] > 0:
                        taint.add("K-try-inside-pending-finally")
                    pending = None
                    try:
                        chk(st[2])
                    except Thrown as t_:
                        pending = t_
                        probes.inc("fiber_switch_inside_finally_with_exception_in_flight")
                    t = pick(nf, "target", me)
                    if pending is not None:
                        pend[0] += 1
                    try:
                        r = do_call(me, t, 0, 0)
                    except FErr as e_:
                        # the failed call replaces whatever was propagating
                        raise Thrown(e_.classes[0] if len(e_.classes) == 1 else "Error", "Error")
                    finally:
                        if pending is not None:
                            pend[0] -= 1
                    ev.append([num(st[1]), num(me), s("tfc"), enc(r)])
                    if pending is not None:
                        raise pending
                elif k == "chk":
                    chk(st[1])
                elif k == "throw":
                    raise Thrown("String", "u%d" % st[1])
                elif k == "isfin":
                    t = pick(nf)
                    ev.append([num(st[1]), num(me), s("fin"), b(state[t] == "fin")])
                elif k == "tc":
                    inner = st[2]
                    if pend[0] > 0:
                        taint.add("K-try-inside-pending-finally")
                    try:
                        if inner == "yield":
                            probes.inc("transfer:yield_inside_try")
                            st8["inbox"] = yield st8["acc"]
                            if pend[0] > 0:
                                taint.add("K-try-inside-pending-finally")   # resumed inside its try block meanwhile
                        elif inner == "yield2":
                            probes.inc("illegal:yield_two_args")
                            raise Thrown("TypeError", "TypeError")
                        elif inner == "call":
                            call_stmt(st[1])
                        elif inner == "throw":
                            raise Thrown("String", "x%d" % st[1])
                        chk(st[3])
                        ev.append([num(st[1]), num(me), s("tc-ok"), num(st8["acc"])])
                    except Thrown as t:
                        if pend[0] > 0:
                            taint.add("K-try-inside-pending-finally")
                        probes.inc("handler_in_fiber")
                        ev.append([num(st[1]), num(me), s("tc"), cls(t.klass), num(st8["acc"])])
            return None

        try:
            r = yield from run(f["body"])
        except Thrown as t:
            probes.inc("uncaught_in_fiber")
            raise Fatal(t.needle)
        if r is not None:
            return r[1]
        return None

    outcome = {"ok": True}
    if ir.get("deepgen"):
        probes.inc("generator_started_deep_in_a_chain_of_fibers_resumed_from_shallow_code")
        ev.append([s("deepgen"), num(ir["deepgen"][0] + 1), num(5 + ir["deepgen"][2]), b(True)])
    if ir.get("crowd"):
        probes.inc("programs_after_hundreds_of_abandoned_fibers")
        ev.append([s("crowd"), num(sum(q + 1 for q in range(0, ir["crowd"], 2)))])
    try:
        for _step in range(ir["steps"]):
            a = pick(12, "action")
            if a < 9:
                t = pick(nf, "target", "drv")
                m = pick(5, "mode", t)
                v = pick(1000, "value")
                try:
                    r = do_call("drv", t, m, v)
                    ev.append([num(0), s("drv"), s("nret"), num(t), enc(r), num(tick())])
                except FErr as e:
                    ev.append([num(0), s("drv"), s("nerr"), num(t), anyof(*[cls(c_) for c_ in e.classes]), num(tick())])
            elif a == 9:
                t = pick(nf, "drop")
                if state[t] == "susp":
                    probes.inc("abandoned_while_suspended")
                state[t] = "new"
                gens[t] = None
                ev.append([s("drop"), num(t)])
            elif a == 10:
                q = pick(4)
                if q < 2:
                    t = pick(nf)
                    ev.append([s("fin"), b(state[t] == "fin")])
                elif q == 2:
                    probes.inc("illegal:new_fiber_from_two_parameter_function")
                    ev.append([s("badnew"), cls("ValueError")])
                else:
                    pick(nf)
                    probes.inc("illegal:new_fiber_from_non_function")
                    ev.append([s("badnew"), cls("TypeError")])
            else:
                if wrap:
                    ev.append([s("noop")])
                else:
                    probes.inc("illegal:yield_at_top_level")
                    ev.append([s("topyield"), cls("RuntimeError"), num(a + 100), num(a)])
                    ev.append([s("topyield-after"), num(a + 100), num(a)])
        ev.append([s("shared"), num(shared[0])])
        for fi in range(nf):
            cnt = None
            if exports[fi] is not None:
                exports[fi][0] += 1
                cnt = exports[fi][0]
            ev.append([s("final"), num(fi), b(state[fi] == "fin"), enc(cnt)])
        ev.append([s("done"), num(77)])
    except Fatal as f:
        outcome = {"uncaught": f.needle}
    return {"events": ev, "outcome": outcome, "fired": fired, "probes": probes, "transfers": transfers,
            "tape_used": tp[0], "taint": taint}


def compare(exp, hist):
    po = process_outcome(hist)
    if po:
        return {"class": po[0], "msg": po[1]}
    prog = hist["programs"][0]
    act = prog["events"]
    out = prog["outcome"]
    d = first_diff(exp["events"], act)
    if d is not None:
        i, e, a = d
        return {"class": "history", "msg": "event %d: expected %s got %s" % (i, json.dumps(e), json.dumps(a)),
                "detail": {"expected_tail": exp["events"][max(0, i - 4):i + 2], "actual_tail": act[max(0, i - 4):i + 2],
                           "actual_outcome": out}}
    if exp["outcome"].get("ok"):
        if not out.get("ok"):
            return {"class": "outcome", "msg": "expected normal completion, got %s" % json.dumps(out)[:300]}
    else:
        if "err" not in out:
            return {"class": "outcome", "msg": "expected an uncaught failure naming %r to end the run, got %s" % (
                exp["outcome"]["uncaught"], json.dumps(out)[:300])}
        msgs = out.get("messages") or [""]
        if exp["outcome"]["uncaught"] not in msgs[0]:
            return {"class": "outcome", "msg": "uncaught message %r does not name %r" % (msgs[0], exp["outcome"]["uncaught"])}
    if hist.get("tape_used") != exp["tape_used"]:
        return {"class": "tape", "msg": "program consumed %s decisions, model %s" % (hist.get("tape_used"), exp["tape_used"])}
    return None


def make_tape(rng, ir, faults):
    """The simulator's scheduler: draws every decision from the PRNG while *watching the fibers' states* (through
    the reference model), so that most transfers are legal and illegal ones are attempted at a per-run rate
    (swarm: the rates themselves are drawn per run). The result is a plain list of integers: the tape."""
    p_legal_target = rng.choice([0.5, 0.8, 0.95])
    p_legal_mode = rng.choice([0.6, 0.85, 0.97])
    p_drop = rng.choice([0.0, 0.05, 0.15])
    p_other = rng.choice([0.02, 0.08])

    def chooser(m, purpose, info, state, ir_):
        if purpose == "action":
            if not any(st_ in ("new", "susp") for st_ in state) and rng.chance(0.6):
                return 9
            x = rng.below(1000)
            if x < p_drop * 1000:
                return 9
            if x < (p_drop + p_other) * 1000:
                return 10 + rng.below(2)
            return rng.below(9)
        if purpose == "target":
            if rng.chance(p_legal_target):
                ok = [i for i in range(m) if state[i] in ("new", "susp")]
                if ok:
                    return rng.choice(ok)
            return rng.below(m)
        if purpose == "drop":
            fin = [i for i in range(m) if state[i] == "fin"]
            if fin and rng.chance(0.7):
                return rng.choice(fin)
            return rng.below(m)
        if purpose == "mode":
            t = info
            if rng.chance(p_legal_mode):
                if state[t] == "new":
                    return 0 if ir_["fibers"][t]["param"] == 0 else rng.choice([1, 2, 4])
                return rng.choice([0, 1, 2, 4])
            return rng.below(5)
        return rng.below(m)

    tape = []
    model(ir, tape, faults, chooser)
    # slack for executions that diverge from the model (they would otherwise read zeros)
    tape += [rng.below(1000) for _ in range(16)]
    return tape


class C09:
    ID = "C09"
    LEVEL = "exploration"
    TIMEOUT = 30.0
    RULE = ("case = generated program with 2-5 fibers (bodies from a statement language: yields with/without value, yields "
            "from helper frames 1-3 deep, nested fiber calls, try/catch spanning a suspension with a fault point after it, "
            "per-fiber closure counters, a counter shared by all fibers through a captured variable, returns, uncaught "
            "throws) x a decision tape that chooses at run time every transfer (target, argument count 0/1/2, value), "
            "abandon-and-replace of fibers, has_finished probes and illegal transfers; each case runs in checked and "
            "release builds (and a slice under hooks: collect-always + quarantine). non-trivial = at least 2 successful "
            "transfers; distinct = distinct hash of the (from, to, kind) transfer sequence 1/100 of the cases also run on the optimised build collecting at every allocation under valgrind memcheck.")
    COMPONENTS = {"real": ["yarel compiler", "VM fiber machinery (load_fiber, unload_fiber, return_impl, fiber natives)",
                           "closures/upvalues across fibers", "per-fiber exception handler stacks", "collector (native pacing; hook slice: every allocation, quarantine)"],
                  "stub": ["scheduler: every transfer decision comes from the simulator's tape through the printer seam",
                           "fault-point native"]}
    ASSUMPTIONS = ["error classes for illegal transfers are the ones the implementation documents in its tests (TypeError for argument count, RuntimeError for finished/re-entered fibers and top-level yield); where two conditions hold at once either class is accepted",
                   "state of fibers on the caller chain after an uncaught failure is not asserted (the run ends)"]

    def configs(self, tier):
        return ["checked", "release", "checked+hooks", "release+debug_stress_gc"]

    def plan(self, tier):
        return 15000 if tier == "quick" else 400000

    def wall_cap(self, tier):
        return 240 if tier == "quick" else 3300

    def generate(self, seed, idx, tier):
        cseed = derive(seed, "C09", idx)
        ir = gen_ir(cseed)
        rng = Rng(derive(cseed, "tape"))
        faults = {}
        if ir["sites"] and rng.chance(0.6):
            for _ in range(rng.range(1, 3)):
                site = "s%d" % rng.range(1, ir["sites"])
                faults.setdefault(site, {})[str(rng.range(1, 3))] = rng.choice(ERROR_KINDS)
        tape = make_tape(rng, ir, faults)
        return {"ir": ir, "tape": tape, "faults": faults, "gc_slice": (idx % 8 == 0), "mc_slice": (idx % MC_EVERY == MC_EVERY // 2)}

    def check(self, sc, ctx):
        stats = Stats()
        ir = sc["ir"]
        try:
            src, modules = render(ir)
            exp = model(ir, sc["tape"], sc["faults"])
        except (ValueError, KeyError, IndexError) as e:
            return {"stats": stats, "nontrivial": False, "invalid": str(e)}
        sc = dict(sc)
        sc["programs"] = [{"kind": "snippet", "source": src}]
        sc["fs"] = {k_: {"source": v_, "reads": []} for k_, v_ in modules.items()}
        stats.merge(exp["probes"])
        stats.inc("scenarios")
        stats.inc("transfers", len(exp["transfers"]))
        stats.inc("events_expected", len(exp["events"]))
        stats.inc("decisions", exp["tape_used"])
        stats.inc("faults_fired", len(exp["fired"]))
        stats.inc("fibers", len(ir["fibers"]))
        if exp["outcome"].get("uncaught"):
            stats.inc("runs_ended_by_uncaught_failure")
        key = stable_hash(exp["transfers"])
        res = {"stats": stats, "nontrivial": len(exp["transfers"]) >= 2, "key": key, "scenario": sc,
               "sample": {"source": src, "tape_prefix": sc["tape"][:24], "faults": sc["faults"],
                          "expected_events_prefix": exp["events"][:30], "transfers": exp["transfers"][:30]}}
        if exp["taint"] and not sc.get("ignore_taint"):
            # the exception-in-flight flag is VM-wide (open C08 finding K-try-inside-pending-finally): a try statement that a
            # fiber runs while ANOTHER fiber's finally block is waiting with a pending exception misbehaves
            res["taints"] = sorted(exp["taint"])
            stats.inc("scenarios_tainted")
            h = ctx.run("checked", sc)
            po = process_outcome(h)
            if po and po[0] in ("hang", "crash"):
                res["violation"] = {"class": po[0], "msg": "[checked] " + po[1]}
            return res
        configs = [("checked", None), ("release", None)]
        if sc.get("gc_slice"):
            configs.append(("checked+hooks", {"gc": {"mode": "always", "quarantine": True}}))
        if sc.get("mc_slice"):
            # the optimised build (raw active-fiber pointer, unchecked stack) collecting at every allocation, under valgrind
            configs.append(("release+debug_stress_gc@memcheck", None))
        for config, cfg in configs:
            run_sc = dict(sc, config=cfg) if cfg else sc
            h = ctx.run(config, run_sc)
            stats.inc("executions:" + config)
            v = compare(exp, h)
            if v is None and cfg:
                gc = h.get("gc") or {}
                stats.inc("gc_collections", gc.get("collections", 0))
                stats.inc("gc_quarantined", gc.get("quarantined", 0))
                if gc.get("uar_count", 0) > 0:
                    v = {"class": "use-after-reclaim", "msg": "use of reclaimed object(s): %s" % json.dumps(gc.get("uar", [])[:3])}
            if v:
                v["config"] = config
                v["msg"] = "[%s] %s" % (config, v["msg"])
                res["violation"] = v
                return res
        return res

    def shrink(self, sc):
        import copy
        ir = sc["ir"]
        if sc["faults"]:
            for site in sorted(sc["faults"]):
                f2 = {k: dict(v) for k, v in sc["faults"].items() if k != site}
                yield dict(sc, faults=f2)
        if ir["steps"] > 1:
            for n in sorted(set([ir["steps"] // 2, ir["steps"] - 1])):
                if n >= 1:
                    d = copy.deepcopy(ir)
                    d["steps"] = n
                    yield dict(sc, ir=d)
        if ir.get("wrap"):
            d = copy.deepcopy(ir)
            d["wrap"] = False
            yield dict(sc, ir=d)
        # drop statements from fiber bodies
        def paths(bl, prefix):
            for i, st in enumerate(bl):
                yield prefix + [i]
                if st[0] == "loop":
                    yield from paths(st[2], prefix + [i, 2])
        for fi in range(len(ir["fibers"])):
            for p in list(paths(ir["fibers"][fi]["body"], [])):
                d = copy.deepcopy(ir)
                bl = d["fibers"][fi]["body"]
                for j in range(0, len(p) - 1, 2):
                    bl = bl[p[j]][p[j + 1]]
                st = bl[p[-1]]
                del bl[p[-1]]
                yield dict(sc, ir=d)
                if st[0] == "loop":
                    d = copy.deepcopy(ir)
                    bl = d["fibers"][fi]["body"]
                    for j in range(0, len(p) - 1, 2):
                        bl = bl[p[j]][p[j + 1]]
                    bl[p[-1]:p[-1] + 1] = st[2]
                    yield dict(sc, ir=d)
        # simplify the tape: zero individual decisions from the end
        tape = sc["tape"]
        if len(tape) > 8:
            yield dict(sc, tape=tape[:len(tape) // 2])
        for i in range(min(len(tape), 120) - 1, -1, -1):
            if tape[i] != 0:
                t2 = list(tape)
                t2[i] = 0
                yield dict(sc, tape=t2)

    def summarize(self, stats, tier):
        return {"transfers_by_kind": {k[len("transfer:"):]: v for k, v in stats.items() if k.startswith("transfer:")},
                "illegal_transfers_attempted": {k[len("illegal:"):]: v for k, v in stats.items() if k.startswith("illegal:")},
                "faults_fired_by_kind": {k[len("fault_kind:"):]: v for k, v in stats.items() if k.startswith("fault_kind:")},
                "logical_time": {"decisions": stats.get("decisions", 0), "transfers": stats.get("transfers", 0),
                                 "events": stats.get("events_expected", 0)}}


PROP = C09()
