"""C01 - GC safety: nothing a program can still reach is ever reclaimed.

The simulator owns the *collection schedule*: every scenario (a generated heap-shape program) is executed three
times by the real compiler/VM/heap under the verif_hooks controller: never-collect (the comparison run: nothing is
reclaimed, so its history defines "intact"), collect-at-every-allocation, and a PRNG collection tape. Reclaimed
objects are quarantined (kept allocated, flagged), so a premature reclaim has a deterministic, memory-safe,
observable effect: every later dereference of a flagged object - and every access through an open captured
variable into the value stack of a reclaimed fiber - is recorded as a use-after-reclaim event.

Workload: *retention chains* root -> e1 -> ... -> target in which the chain is the only path to the target
(edge catalogue x target catalogue x root catalogue below), allocation churn, then the target is read back through
the chain; plus an operation catalogue that makes the interpreter hold fresh, otherwise unreferenced objects
mid-operation. Oracle: zero use-after-reclaim events, history(always) == history(tape) == history(never), no panic.
"""
import json
import os

from ..prng import Rng, derive
from ..core import process_outcome, Stats, stable_hash

PRELUDE = """#[constructor(new)] class Box { fn getf(self) { return self.f; } }
fn mkbox(x) { var b = Box.new(); b.f = x; return b; }
#[constructor(new)] class Inst { fn sum(self) { return (self.a, self.b); } }
fn mkinst(u) { var i = Inst.new(); i.a = [u, "a" + "x"]; i.b = (u, "b"); return i; }
fn mkclo(x) { return || { return x; }; }
fn getiter(v) { return v.iter; }
fn emptyslices(t) { var a = t[1..1]; a = nil; churn(1); var b = t[0..0]; churn(1); var c = t[2..2]; churn(1); return [b.len(), c.len(), t[1..1].len(), b == c, type(b) == type(t)]; }
fn evict10() { var t = 0; for q in [20..21, 20..22, 20..23, 20..24, 20..25, 20..26, 20..27, 20..28, 20..29, 20..30] { t = t + 1; } return t; }
fn rangekey(u) { var m = {(u..(u + 4)): [u]}; evict10(); churn(1); var t = 0; for r in m.keys() { for x in r { t = t + x; } } return [t, m.len(), m.values()]; }
fn rsum(v) { var t = 0; for r in v { for x in r { t = t + x; } } return t; }
fn bmcycle(u) { var v = []; var w = [v]; v.push(v.push); v.push(w); v.push([u]); churn(2); return (v.len(), w[0].len(), v[2]); }
fn bmcycle2(u) { var a = mkinst(u); var b = mkinst(u + 1); a.cb = a.sum; a.other = b; b.other = a; b.cb = a.sum; churn(2); return (a.cb(), b.other.a, b.cb()); }
fn bmcycle3(u) { var m = {}; var ins = m.insert; m.insert("self", ins); m.insert("m", [m, ins]); var it = [m, [u]].iter(); m.insert("it", it.next); churn(2); return (m.len(), it.next() == m, it.next()); }
fn mksub2v(base) { var s1 = [base]; #[derive(base), constructor(new)] class Sub2 { fn own(self) { return 2; } } return Sub2; }
fn mksub2w(base) { var s1 = [base]; var s2 = [base]; #[derive(base), constructor(new)] class Sub2 { fn own(self) { return 2; } } return Sub2; }
fn mksub2x(base) { var s1 = [base]; var s2 = [base]; var s3 = [1]; #[derive(base), constructor(new)] class Sub2 { fn own(self) { return 2; } } return Sub2; }
fn mksub2n(base) { var s1 = || { return base; }; #[derive(base), constructor(new)] class Sub2 { } return Sub2; }
fn derivreuse(u) { var mk = [mksub2, mksub2v, mksub2w, mksub2x, mksub2n]; var yes = 0; var no = 0; var ai = 0; while ai < 5 { var bi = 0; while bi < 5 { if mk[ai](Inst).new().derives(Inst) { yes = yes + 1; } if mk[bi](Box).new().derives(Inst) { no = no + 1; } bi = bi + 1; } ai = ai + 1; } return (u, yes, no); }
fn rangeeq(u) { var a = u..(u + 3); var m = {a: [u]}; churn(1); return (a == u..(u + 3), m.has_key(u..(u + 3)), m.get(u..(u + 3))); }
fn drain_twice(it) { var n = 0; for x in it { n = n + 1; } churn(1); for x in it { n = n + 100; } churn(1); try { it.next(); n = n + 1000; } catch e { n = n + 10; } return n; }
fn setfirst(v, x) { v[0] = x; x = nil; churn(1); return [v[0], v.len()]; }
fn getpush(v) { return v.push; }
fn getsum(u) { return mkinst(u).sum; }
#[constructor(new)] class CallHolder { }
fn mkholder(f) { var h = CallHolder.new(); h.f = f; return h; }
fn mkctr(u) { var c = [u]; return || { c = [c[0] + 1]; return c; }; }
fn mkfib(x) { var f = Fiber.new(|a| { var loc = a; Fiber.yield(1); return loc; }); f.call(x); return f; }
fn mkfin(u) { var f = Fiber.new(|| { return [u]; }); f.call(); return f; }
fn mkcls(x) { #[constructor(new)] class Holder { fn get(self) { return x; } #[static] fn sget() { return x; } } return Holder; }
fn mksub(base) { #[derive(base), constructor(new)] class Sub { fn own(self) { return 1; } fn viasuper(self) { return super.get(); } } return Sub; }
fn mksub2(base) { #[derive(base), constructor(new)] class Sub2 { fn own(self) { return 2; } } return Sub2; }
fn miter(u) { var it = [[u], [u + 1], [u + 2]].iter(); it.next(); return it; }
fn evict(u) { var k = 0; while k < 10 { var r = (u + 100 + k)..(u + 101 + k); k = k + 1; } return k; }
fn mrit(u) { var it = (u..(u + 4)).iter(); it.next(); evict(u); return it; }
fn upv(u) {
  var a = [u]; var b = [u + 1];
  { var f1 = || { return a; }; f1(); }
  var f2 = || { return b; };
  churn(2);
  return f2;
}
fn upv2(u) {
  var a = [u]; var b = [u + 1]; var c = [u + 2];
  { var fa = || { return a; }; var fb = || { return b; }; fa(); fb(); }
  var fc = || { return c; };
  churn(1);
  var fa2 = || { return a; };
  return [fc(), fa2()];
}
fn cap3a(u) { var a = [u]; var b = [u + 1]; var c = [u + 2]; return || { return [a, c, b]; }; }
fn cap3b(u) { var a = [u]; var b = [u + 1]; var c = [u + 2]; return || { return [c, a, b]; }; }
fn cap4(u) { var a = [u]; var b = [u + 1]; var c = [u + 2]; var d = [u + 3]; var f = || { return [b, d]; }; var g = || { return [c, a, f()]; }; return g; }
fn cap3p(a, b, c) { var x = [a]; return || { return [b, x, c, a]; }; }
fn longstr(u) { var s = "long" + "${u}"; var i = 0; while i < 9 { s = s + s; i = i + 1; } return s; }
fn keep2(a, b) { return a; }
fn id3(a, b, c) { return [a, b, c]; }
fn churn(n) {
  var junk = [];
  var i = 0;
  while i < n {
    junk.push((i, [i], "j" + "k"));
    var t = {i: [i]};
    var c = mkclo([i]);
    i = i + 1;
  }
  return junk.len();
}
fn churnv(n) { churn(n); return [n]; }
"""

GCM = """var held = nil;
var slots = {};
fn set(x) { held = x; return 1; }
fn get() { return held; }
var hc = 500;
fn mkcb() { return || { hc = hc + 1; return (hc, [hc]); }; }
"""

# ---- targets: name -> (expression with {u}, probe with {h}, hashable)
TARGETS = {
    "string": ('("s" + "{u}")', "{h}", True),
    "vec": ('[{u}, "v" + "{u}", ({u}, 1)]', "{h}", False),
    "tuple": ('({u}, "t" + "{u}", [{u}])', "{h}", False),
    "htuple": ('({u}, "t" + "{u}", ({u}, 2))', "{h}", True),
    "map": ('{{{u}: [{u}], "k": ({u}, 0)}}', "{h}", False),
    "instance": ("mkinst({u})", "({h}.a, {h}.b, {h}.sum())", False),
    "closure": ("mkctr({u})", "({h}(), {h}())", False),
    "class": ("mkcls(({u}, [{u}]))", "({h}.new().get(), {h}.sget())", True),
    "boundmethod": ("mkinst({u}).sum", "{h}()", False),
    # a constructor / a static method of a class taken as a value: the class is reachable only through the bound callable
    "bound_constructor": ("mkcls(({u}, [{u}])).new", "{h}().get()", False),
    "bound_static": ("mkcls(({u}, [{u}])).sget", "{h}()", False),
    "iterator": ("miter({u})", "({h}.next(), {h}.next())", False),
    "range": ("({u}..({u} + 3))", "{h}", True),
    # an iterator over a range that has meanwhile been evicted from the interpreter's range cache: only the iterator holds it
    "range_iter_evicted": ("mrit({u})", "({h}.next(), {h}.next(), {h}.next(), {h}.next())", False),
    "fiber_new": ("Fiber.new(mkclo(({u}, [0])))", "{h}.call()", False),
    "fiber_susp": ("mkfib(({u}, [1]))", "{h}.call()", False),
    "fiber_fin": ("mkfin({u})", "{h}.has_finished()", False),
    "nested": ('[[{u}, [{u}, ("n", [{u}])]], {{"d": [{u}]}}]', "{h}", False),
    "subclass_nosuper": ("mksub2(mkcls([{u}]))", "({h}.new().derives(Object), {h}.new().get(), {h}.new().own(), {h}.new().derives(Fiber))", True),
    "subclass": ("mksub(mkcls([{u}]))", "({h}.new().get(), {h}.new().viasuper(), {h}.new().derives(Object), {h}.new().own())", True),
}

# ---- edges: name -> (hold with {x}, unwrap with {h}, needs_hashable_inner, holder_hashable: None = same as inner)
EDGES = {
    "vec_elem": ("[{x}, 0]", "{h}[0]", False, False),
    "tuple_elem": ("({x}, 0)", "{h}[0]", False, None),
    "map_value": ('{{"k": {x}}}', '{h}.get("k")', False, False),
    "map_key": ("{{{x}: 1}}", "{h}.keys()[0]", True, False),
    "map_key_items": ("{{{x}: 1}}", "{h}.items()[0][0]", True, False),
    "field": ("mkbox({x})", "{h}.f", False, False),
    "closed_capture": ("mkclo({x})", "{h}()", False, False),
    "bound_receiver": ("mkbox({x}).getf", "{h}()", False, False),
    "vec_iter": ("[{x}].iter()", "{h}.next()", False, False),
    "tuple_iter": ("({x}, 0).iter()", "{h}.next()", False, False),
    "map_iter": ("[{x}].iter().map(|v| {{ return v; }})", "{h}.next()", False, False),
    "filter_iter": ("[{x}].iter().filter(|v| {{ return true; }})", "{h}.next()", False, False),
    "suspended_fiber_local": ("mkfib({x})", "{h}.call()", False, False),
    "class_method_capture": ("mkcls({x})", "{h}.new().get()", False, True),
    "class_static_capture": ("mkcls({x})", "{h}.sget()", False, True),
    "instance_of_capturing_class": ("mkcls({x}).new()", "{h}.get()", False, False),
    "vec_slice": ("[0, {x}, 1]", "{h}[1..2][0]", False, False),
    "bound_native_receiver": ("[{x}].push", "{h}(0)[0]", False, False),
    "tuple_slice": ("(0, {x}, 1)", "{h}[1..3][0]", False, None),
}

# ---- roots: how the outermost holder is kept and how the churn happens.  {H} holder expr, {U} unwrap(probe) on {r}
ROOTS = {
    "global": ["var l{g} = {H};", "churn({n});", 'print(("ev", {g}, {Pg}));'],
    "local": ["fn r{g}() {{", "  var l = {H};", "  churn({n});", "  return {P};", "}}", 'print(("ev", {g}, r{g}()));'],
    "caller_local": ["fn r{g}() {{", "  var l = {H};", "  var k = churn({n});", "  return {P};", "}}",
                     "fn o{g}() {{ var keep = r{g}(); churn(2); return keep; }}", 'print(("ev", {g}, o{g}()));'],
    "operand_stack": ['print(("ev", {g}, keep2({Pdirect}, churnv({n}))));'],
    "operand_stack_holder": ["fn r{g}(l, c) {{ return {P}; }}", 'print(("ev", {g}, r{g}({H}, churnv({n}))));'],
    "open_capture_running": ["fn r{g}() {{", "  var l = {H};", "  var get = || {{ return l; }};", "  churn({n});", "  l = get();", "  return {P};", "}}",
                             'print(("ev", {g}, r{g}()));'],
    "suspended_fiber_frame": ["fn r{g}() {{", "  var f = Fiber.new(|x| {{ var l = x; Fiber.yield(0); churn(1); return {P}; }});", "  f.call({H});",
                              "  churn({n});", "  return f.call();", "}}", 'print(("ev", {g}, r{g}()));'],
    "open_capture_on_suspended_fiber": ["fn r{g}() {{", "  var f = Fiber.new(|x| {{ var l = x; var get = || {{ return l; }}; Fiber.yield(get); return 0; }});",
                                        "  var get = f.call({H});", "  churn({n});", "  var l = get();", "  var out = {P};", "  f.call();", "  return out;", "}}",
                                        'print(("ev", {g}, r{g}()));'],
    "calling_fiber_chain": ["fn r{g}() {{", "  var fa = Fiber.new(|x| {{ var l = x; var fb = Fiber.new(|| {{ churn({n}); return 1; }}); fb.call(); return {P}; }});",
                            "  return fa.call({H});", "}}", 'print(("ev", {g}, r{g}()));'],
    "module_attribute": ["gcm.held = {H};", "churn({n});", "var l{g} = gcm.get();", 'print(("ev", {g}, {Pg}));', "gcm.held = nil;"],
    "module_map_slot": ["gcm.slots.insert({g}, {H});", "churn({n});", "var l{g} = gcm.slots.remove({g});", 'print(("ev", {g}, {Pg}));'],
    "return_value_across_finally": ["fn r{g}() {{ try {{ return {H}; }} finally {{ churn({n}); }} }}", "fn p{g}(l) {{ return {P}; }}",
                                    'print(("ev", {g}, p{g}(r{g}())));'],
    "exception_value_unwinding": ["fn t{g}() {{ try {{ throw {H}; }} finally {{ churn({n}); }} }}", "fn p{g}(l) {{ return {P}; }}",
                                  'try {{ t{g}(); }} catch e {{ print(("ev", {g}, p{g}(e))); }}'],
    "exception_value_through_frames": ["fn t{g}(d) {{ if d == 0 {{ throw {H}; }} var pad = [d]; return t{g}(d - 1); }}", "fn p{g}(l) {{ return {P}; }}",
                                       'try {{ t{g}(3); }} catch e {{ churn({n}); print(("ev", {g}, p{g}(e))); }}'],
    "fiber_transfer_value": ["fn r{g}() {{", "  var f = Fiber.new(|x| {{ var got = Fiber.yield(x); churn(1); return got; }});", "  var l = f.call({H});", "  churn({n});",
                             "  l = f.call(l);", "  return {P};", "}}", 'print(("ev", {g}, r{g}()));'],
}

# Roots that were in the region of a known finding while it was open (K-upvalue-dropped-fiber, now fixed):
# generated like every other root since the fix.
OPEN_ROOTS = {
    # the captured variable lives on the value stack of a fiber that is then dropped
    "open_capture_on_dropped_fiber": ["fn r{g}() {{", "  var f = Fiber.new(|x| {{ var l = x; var get = || {{ return l; }}; Fiber.yield(get); return 0; }});",
                                      "  var get = f.call({H});", "  f = nil;", "  churn({n});", "  var l = get();", "  return {P};", "}}",
                                      'print(("ev", {g}, r{g}()));'],
}
# A captured variable whose scope is left by an *exception*: unwinding must close the captured variable (give the closure
# its own copy) before the stack is cut back; otherwise the closure keeps pointing at a slot above the stack top, which the
# collector does not trace. The pads keep that slot from being overwritten before the closure is used.
PADS = " ".join("var p%d = %d;" % (i, i) for i in range(14))
OPEN_ROOTS.update({
    "capture_in_scope_left_by_exception": ["fn r{g}() {{", "  var get = nil;",
                                           "  try {{ " + PADS + " var l = {H}; get = || {{ return l; }}; throw 1; }} catch e {{ churn(1); }}",
                                           "  churn({n});", "  var l = get();", "  return {P};", "}}", 'print(("ev", {g}, r{g}()));'],
    # ... or by a `return` that leaves the try block through its finally block
    "capture_in_try_left_by_return": ["var get{g} = nil;",
                                      "fn t{g}() {{ try {{ " + PADS + " var l = {H}; get{g} = || {{ return l; }}; return 1; }} finally {{ churn({n}); }} }}",
                                      "fn r{g}() {{", "  t{g}();", "  churn(1);", "  var l = get{g}();", "  return {P};", "}}", 'print(("ev", {g}, r{g}()));'],
    "capture_in_callee_left_by_exception": ["var get{g} = nil;", "fn t{g}() {{ " + PADS + " var l = {H}; get{g} = || {{ return l; }}; throw [1]; }}",
                                            "fn r{g}() {{", "  try {{ t{g}(); }} catch e {{ churn(1); }}", "  churn({n});", "  var l = get{g}();", "  return {P};", "}}",
                                            'print(("ev", {g}, r{g}()));'],
})
ROOTS.update(OPEN_ROOTS)
ROOTS["capture_on_finished_fiber"] = ["fn r{g}() {{", "  var f = Fiber.new(|x| {{ var l = x; var pad = [1]; return || {{ return l; }}; }});",
                                      "  var get = f.call({H});", "  f = nil;", "  churn({n});", "  var l = get();", "  return {P};", "}}",
                                      'print(("ev", {g}, r{g}()));']
ROOTS["capture_of_fiber_parameter_after_finish"] = ["fn r{g}() {{", "  var f = Fiber.new(|l| {{ return || {{ return l; }}; }});", "  var get = f.call({H});",
                                                    "  churn({n});", "  var l = get();", "  return {P};", "}}", 'print(("ev", {g}, r{g}()));']
# a `return` that comes BEFORE the capturing closure in source order but runs after it (both sit in a loop): the frame's
# captured variables must still be closed when it returns
ROOTS["capture_after_return_site_in_loop"] = ["fn r{g}() {{", "  var l = {H};", "  var fns = [];", "  while true {{",
                                              "    if fns.len() == 2 {{ return fns; }}", "    fns.push(|| {{ return l; }});", "  }}", "}}",
                                              "fn p{g}(l) {{ return {P}; }}", "var fns{g} = r{g}();", "churn({n});",
                                              'print(("ev", {g}, p{g}(fns{g}[1]())));']
# the value sits at the far end of a chain of 1500 nested vectors (deeper than any fixed marking depth one might pick)
ROOTS["end_of_deep_chain"] = ["fn r{g}() {{", "  var l = {H};", "  for i in 0..1500 {{ l = [l]; }}", "  churn({n});",
                              "  for i in 0..1500 {{ l = l[0]; }}", "  return {P};", "}}", 'print(("ev", {g}, r{g}()));']
# a loop-body variable captured by a closure, and the iteration then ends through `continue`: each iteration's variable must be
# closed (given to its closure) before the next iteration reuses the slot
ROOTS["capture_in_loop_body_left_by_continue"] = ["fn r{g}() {{", "  var fns = [];", "  for i in 0..3 {{", "    var l = {H};",
                                                  "    fns.push(|| {{ return l; }});", "    if i >= 0 {{ continue; }}", "    fns.push(nil);", "  }}",
                                                  "  churn({n});", "  var l = fns[1]();", "  return {P};", "}}", 'print(("ev", {g}, r{g}()));']
# a closure factory made on a suspended fiber and CALLED on another one: the inner closure inherits the captured variable, which
# still lives on the first fiber's stack; that fiber is then dropped
ROOTS["nested_capture_made_elsewhere_on_dropped_fiber"] = [
    "fn r{g}() {{", "  var f = Fiber.new(|x| {{ var l = x; var mk = || {{ return || {{ return l; }}; }}; Fiber.yield(mk); return 0; }});",
    "  var mk = f.call({H});", "  var get = mk();", "  mk = nil;", "  f = nil;", "  churn({n});", "  var l = get();", "  return {P};", "}}",
    'print(("ev", {g}, r{g}()));']
# ... the same with a try/FINALLY (no catch) that the exception merely passes through on its way to an outer handler
ROOTS["capture_in_try_finally_passed_by_exception"] = ["var get{g} = nil;",
    "fn t{g}() {{ try {{ " + PADS + " var l = {H}; get{g} = || {{ return l; }}; throw [1]; }} finally {{ churn(1); }} }}",
    "fn r{g}() {{", "  try {{ t{g}(); }} catch e {{ churn(1); }}", "  churn({n});", "  var l = get{g}();", "  return {P};", "}}", 'print(("ev", {g}, r{g}()));']
# the closure is created inside a NESTED try statement that completes normally; the enclosing try block is then left by `return`
ROOTS["capture_in_nested_try_then_return_through_finally"] = ["var get{g} = nil;",
    "fn t{g}() {{ try {{ " + PADS + " var l = {H}; try {{ get{g} = || {{ return l; }}; }} catch e {{ churn(1); }} return 1; }} finally {{ churn({n}); }} }}",
    "fn r{g}() {{", "  t{g}();", "  churn(1);", "  var l = get{g}();", "  return {P};", "}}", 'print(("ev", {g}, r{g}()));']
# two variables of a fiber captured in DESCENDING slot order (the later-declared one first); the closure over the lower one
# escapes and the fiber is dropped while suspended
ROOTS["second_capture_lower_slot_on_dropped_fiber"] = ["fn r{g}() {{",
    "  var f = Fiber.new(|x| {{ var l = x; var hi = [0]; var gethi = || {{ return hi; }}; var get = || {{ return l; }}; Fiber.yield(get); return gethi; }});",
    "  var get = f.call({H});", "  f = nil;", "  churn({n});", "  var l = get();", "  return {P};", "}}", 'print(("ev", {g}, r{g}()));']
GEN_ROOTS = sorted(ROOTS)

# ---- operations that make the interpreter hold fresh objects mid-operation ({u} = unique number)
OPS = [
    '([{u}], ({u}, "x"), mkinst({u}).a)[0..2]',
    '[[{u}], ({u}, "x"), mkinst({u}).b][1..3]',
    '{{({u}, "k"): [{u}], "s" + "{u}": ({u}, 1)}}.items()',
    '{{({u}, "k"): [{u}], ({u}, "l"): 2}}.keys()',
    '{{1: [{u}], 2: ({u}, [1])}}.values()',
    '("a,b,c" + "{u}").split(",")',
    '[[{u}], [{u} + 1], [{u} + 2]].iter().map(|x| {{ return [x, (x, 1)]; }}).collect()',
    '[[{u}], [{u} + 1], [{u} + 2]].iter().filter(|x| {{ return [x] != nil; }}).collect()',
    '[[{u}], [{u} + 1]].iter().reduce(|acc, x| {{ return [acc, x]; }}, [0])',
    '"${{mkinst({u}).a}} and ${{[{u}, ({u}, 2)]}}"',
    "id3([{u}], ({u}, [1]), mkinst({u}).sum())",
    "mkinst({u}).sum()",
    "mkbox([{u}, ({u}, 1)]).getf()",
    "Fiber.new(|x| {{ return [x, ({u}, [2])]; }}).call([{u}])",
    "mkfib([{u}, ({u}, 3)]).call()",
    "mkcls([{u}]).new().get()",
    "mksub(mkcls(({u}, [4]))).new().viasuper()",
    "mksub(mkcls(({u}, [5]))).new().derives(Object)",
    "mksub2(mkcls(({u}, [5]))).new().derives(Object)",
    "mksub2(mksub2(mkcls(({u}, [5])))).new().derives(Vec)",
    "[[{u}]].push(({u}, [6])).push([mkinst({u}).a])",
    '({u}, "x" + "{u}", [{u}, [{u}]]).iter().collect()',
    "type(mkinst({u})) == Inst",
    "mkctr({u})()",
    "upv({u})()",
    "cap3a({u})()",
    "cap3b({u})()",
    "cap4({u})()",
    "cap3p([{u}], ({u}, 1), [{u} + 1])()",
    "longstr({u}).len()",
    '[longstr({u}), "x"].len()',
    "upv2({u})",
    "{{[{u}].len(): ([{u}], [{u} + 1])}}",
    '("é" + "{u}" + "z").to_code_points()',
    '("q" + "{u}").iter().collect()',
    "String.from([{u}, ({u}, 7)])",
    "[({u}, [8]), ({u}, [9])] == [({u}, [8]), ({u}, [9])]",
    # calls through callables that only the call itself still holds: a bound built-in method / bound method returned by a
    # function, and a callable stored in a field of a temporary instance
    "getiter([[{u}], ({u}, 1)])().next()",
    "getpush([[{u}]])(({u}, [2]))",
    "getsum({u})()",
    "mkholder([[{u}], [{u} + 1]].iter).f().next()",
    "mkholder(mkinst({u}).sum).f()",
    "mkholder(|x| {{ return [x, ({u}, x)]; }}).f([{u}])",
    # an iterator polled again after it has finished, over a container only the iterator still holds
    "drain_twice([[{u}], ({u}, 1)].iter())",
    "drain_twice(([{u}], ({u}, 1), [2]).iter())",
    # a fresh heap value stored by index into vectors produced by the different built-ins
    'setfirst(("q" + "{u}").to_bytes(), [{u}, ({u}, 1)])',
    'setfirst(("q" + "{u}").to_code_points(), ({u}, [1]))',
    'setfirst(("a,b" + "{u}").split(","), [{u}])',
    "setfirst({{1: 2, {u}: 3}}.keys(), [{u}])",
    "setfirst({{1: [2]}}.items(), ({u}, [3]))",
    "setfirst([1, 2, {u}][0..2], [{u}])",
    "setfirst([1, {u}].iter().collect(), [{u}])",
    # short-lived classes (address reuse under a real allocator): the answers must be the new class's, not a dead one's
    "mksub(Inst).new().derives(Inst)",
    "mkcls([{u}]).new().derives(Inst)",
    "mksub2(Box).new().derives(Inst)",
    "mksub2(Inst).new().own()",
    "mksub(Box).new().own()",
    # an equal range literal evaluated after allocations in between is == to the range held in a variable, and finds it as a key
    "rangeeq({u})",
    # more distinct literal ranges in one compilation unit than the interpreter's range cache holds
    # empty slices taken one after the other, with collections in between
    "emptyslices(({u}, [{u}], 3))",
    "emptyslices([{u}, [{u}], 3])",
    # a range that only a map holds, as a key, while more ranges are created than the interpreter's range cache keeps
    "rangekey({u})",
    "rsum([1..2, 1..3, 1..4, 1..5, 1..6, 1..7, 1..8, 1..9, 2..9, 3..9, 4..9, 5..9]) + {u}",
    # a bound method kept where its receiver is reachable by a second path (cycles through the receiver link)
    "bmcycle({u})",
    "bmcycle2({u})",
    "bmcycle3({u})",
    # the derives() question asked of short-lived classes of one shape that die one after the other (same sizes, same allocation
    # order: the next one lands where the last one was), without any other derives() call in between
    "derivreuse({u})",
]
# operations that fail: the error object is created while the operands are held only by the interpreter
FAIL_OPS = [
    "[[{u}], ({u}, 1)][5]",
    "{{}}.insert([{u}], ({u}, [1]))",
    "mkinst({u}).nothing",
    "mkinst({u}).sum(1, 2)",
    '[{u}] + ({u}, "x")',
    "Fiber.new(|a, b| {{ return a; }})",
    "mkfin({u}).call()",
    '("s" + "{u}").find([{u}], 0)',
    "String.from_utf8([{u} + 300, [1]])",
    "undefined_name_{u}",
    "longstr({u}).to_num()",
    "{{}}.insert([longstr({u})], 1)",
    "[1, 2][longstr({u})]",
    "longstr({u}).nothing",
    "getsum({u})(1, 2)",
    "getiter([[{u}]])(1)",
    "mkholder(mkinst({u}).sum).f([{u}], 2)",
]


def modfail_source(u):
    return ("""var detail = [%d, ("plugin", [%d])];
var table = {"k": [%d]};
#[constructor(new)] class PlugErr { fn why(self) { return (detail, table.get("k")); } }
fn helper() { return [detail, %d]; }
var hook = helper;
throw PlugErr.new();
""" % (u, u, u, u))


def _v(*xs):
    return {"v": list(xs)}


def _n(x):
    from ..values import num
    return num(x)


# For a few operations the value is also known in closed form (closures over several variables of one frame, called after
# the frame is gone): the reference run itself must produce it - "intact" means the variable's own value, not merely the
# same wrong value under every schedule.
MEMCHECK_EVERY = int(os.environ.get("VERIF_MEMCHECK_EVERY", "24"))      # exploration knob: 1 = every scenario also runs under valgrind


OPS_EXPECT = {
    "rangeeq({u})": lambda u: {"t": [{"b": True}, {"b": True}, _v(_n(u))]},
    "cap3a({u})()": lambda u: _v(_v(_n(u)), _v(_n(u + 2)), _v(_n(u + 1))),
    "cap3b({u})()": lambda u: _v(_v(_n(u + 2)), _v(_n(u)), _v(_n(u + 1))),
    "cap4({u})()": lambda u: _v(_v(_n(u + 2)), _v(_n(u)), _v(_v(_n(u + 1)), _v(_n(u + 3)))),
    "cap3p([{u}], ({u}, 1), [{u} + 1])()": lambda u: _v({"t": [_n(u), _n(1)]}, _v(_v(_n(u))), _v(_n(u + 1)), _v(_n(u))),
    "upv2({u})": lambda u: _v(_v(_n(u + 2)), _v(_n(u))),
    "upv({u})()": lambda u: _v(_n(u + 1)),
}


def gen_ir(seed):
    rng = Rng(seed)
    n = rng.range(3, 9)
    gadgets = []
    nranges = 0
    for gi in range(n):
        kind = rng.weighted([(58, "chain"), (24, "op"), (14, "failop"), (4, "modfail")])
        u = 1000 + gi * 10
        if kind == "chain":
            target = rng.choice(sorted(TARGETS))
            if target == "range":
                nranges += 1
                if nranges > 5:
                    target = "vec"
            hashable = TARGETS[target][2]
            depth = rng.weighted([(35, 1), (35, 2), (20, 3), (10, 4)])
            edges = []
            for _ in range(depth):
                cands = [e for e in sorted(EDGES) if hashable or not EDGES[e][2]]
                e = rng.choice(cands)
                edges.append(e)
                hh = EDGES[e][3]
                hashable = hashable if hh is None else hh
            root = rng.choice(GEN_ROOTS)
            gadgets.append(["chain", root, edges, target, u, rng.range(0, 6)])
        elif kind == "modfail":
            gadgets.append(["modfail", u, rng.range(0, 4)])
        elif kind == "op":
            gadgets.append(["op", rng.below(len(OPS)), u, rng.choice(["global", "fn", "fiber"])])
        else:
            gadgets.append(["failop", rng.below(len(FAIL_OPS)), u])
    # reset sessions: the program after the reset is either compiled after it, or was compiled BEFORE it by the host (which kept
    # the function) and is executed after it
    return {"gadgets": gadgets, "reset": (rng.choice([True, "compiled"]) if rng.chance(0.15) else False),
            "hostmod": (rng.range(1, 9) if rng.chance(0.1) else 0), "hostheld": rng.chance(0.3)}


def render_gadget(g, gi):
    kind = g[0]
    gid = gi + 1
    if kind == "chain":
        _, root, edges, target, u, n = g
        texpr, tprobe, _ = TARGETS[target]
        x = texpr.format(u=u)
        # innermost edge first: H = hold_e1(hold_e2(...(target)))
        # edges[0] is the innermost edge (next to the target), edges[-1] hangs off the root
        unwrap = "{r}"
        for e in edges:
            x = EDGES[e][0].format(x=x)
        for e in reversed(edges):
            unwrap = EDGES[e][1].format(h=unwrap)
        # evaluate the chain once into a local so that iterators / fibers are traversed exactly once
        lines = []
        for line in ROOTS[root]:
            lines.append(line.format(g=gid, H=x, n=n,
                                     P=wrap_probe(unwrap, tprobe, "l"),
                                     Pg=wrap_probe(unwrap, tprobe, "l%d" % gid),
                                     Pdirect=wrap_probe(unwrap, tprobe, x)))
        return lines
    if kind == "modfail":
        _, u, n = g
        # what escapes from a module whose top-level code failed (the thrown instance -> its class -> methods -> the module's
        # globals) must stay intact: the importer caught the failure and still holds the instance
        return ["var caught%d = nil;" % gid,
                'try { import "gcfail%d"; } catch e { caught%d = e; }' % (u, gid),
                "churn(%d);" % n,
                'print(("ev", %d, caught%d.why(), type(caught%d) == PlugErr%d));' % (gid, gid, gid, gid) if False else
                'print(("ev", %d, caught%d.why()));' % (gid, gid)]
    if kind == "op":
        _, oi, u, where = g
        expr = OPS[oi].format(u=u)
        if where == "global":
            return ['print(("ev", %d, %s));' % (gid, expr)]
        if where == "fn":
            return ["fn op%d() { var pad = [%d]; return %s; }" % (gid, u, expr), 'print(("ev", %d, op%d()));' % (gid, gid)]
        return ["fn op%d() { return %s; }" % (gid, expr), 'print(("ev", %d, Fiber.new(op%d).call()));' % (gid, gid)]
    _, oi, u = g
    expr = FAIL_OPS[oi].format(u=u)
    return ['try { (%s); print(("ev", %d, "no-error")); } catch e { churn(1); print(("ev", %d, type(e), e.context)); }' % (expr, gid, gid)]


def wrap_probe(unwrap, tprobe, rootexpr):
    """expression that traverses the chain from `rootexpr` exactly once and probes the target"""
    u = unwrap.format(r=rootexpr)
    if tprobe == "{h}":
        return u
    # the target is needed several times by the probe: bind it through an immediately called lambda
    return "(|tg| { return %s; })(%s)" % (tprobe.format(h="tg"), u)


def render(ir):
    # (the helper module is imported only by programs that use it: a loaded module holds every built-in class in its own
    # globals, which would keep them alive when the main script rebinds their names)
    uses_gcm = any(g[0] == "chain" and g[1] in ("module_attribute", "module_map_slot") for g in ir["gadgets"])
    out = [PRELUDE] + (['import "gcm";'] if uses_gcm else [])
    for gi, g in enumerate(ir["gadgets"]):
        out += render_gadget(g, gi)
    out.append('print(("ev", "end", churn(3)));')
    if ir.get("reset"):
        # the program rebinds built-in function names before the host resets the interpreter: the built-ins a reset brings
        # back must be alive (nothing but the rebound globals table referred to the old ones)
        out.append('var type = [9]; var clock = [8]; var MapIter = [7]; var FilterIter = [6]; var Iter = [5]; print(("ev", "rebound", type, clock, MapIter, FilterIter, Iter, churn(2)));')
    return "\n".join(out) + "\n"


AFTER_RESET = PRELUDE + """import "gcm";
print(("ev", "after-reset", [[1], [2], [3]].iter().map(|x| { return [x, churn(1)]; }).collect(),
       [[1], [2]].iter().filter(|x| { return churn(1) == 1; }).collect(), type(Error), gcm.get(), mkinst(7).sum(), churn(2)));
print(("ev", "after-reset-builtins", type(clock) == BuiltIn, type(type) == BuiltIn, type([churn(1)]) == Vec, clock() > 0));
"""


def programs(ir):
    """the scenario's program list: normally one program; with ir["reset"] the interpreter is reset (Vm::reset) after it and
    a second program then uses the core library, a re-imported module and fresh allocations"""
    progs = [{"kind": "snippet", "source": render(ir)}]
    if ir.get("hostmod"):
        # the host registers a native in a namespace of its own that does not exist yet, and runs a script there
        progs += [{"kind": "defnative", "module": "sandbox%d" % ir["hostmod"], "name": "emit"},
                  {"kind": "defnative", "module": "sandbox%d" % ir["hostmod"], "name": "audit"},
                  {"kind": "snippet", "module": "sandbox%d" % ir["hostmod"], "source": 'emit(("ev", "sandbox", 1)); audit(("ev", "sandbox", 2)); emit(("ev", "sandbox", 3));\n'}]
    if ir.get("reset") == "compiled":
        progs += [{"kind": "compile", "source": AFTER_RESET}, {"kind": "reset"}, {"kind": "run", "slot": 0}]
    elif ir.get("reset") and ir.get("hostheld"):
        # the host keeps a callback of the script - a closure made by a module - rooted across the reset and hands it back to the
        # next script: the closure, what it captured and the module whose globals it works on are reachable all along
        progs += [{"kind": "snippet", "source": 'import "gcm";\nvar held_cb = gcm.mkcb();\nprint(("ev", "held", held_cb()));\n'},
                  {"kind": "hold", "module": "main", "name": "held_cb"}, {"kind": "reset"},
                  {"kind": "putback", "slot": 0, "module": "main", "name": "held_cb"},
                  {"kind": "snippet", "source": 'var filler = []; for i in 0..30 { filler.push([i, "f${i}"]); }\nprint(("ev", "held", held_cb(), held_cb()));\n' + AFTER_RESET}]
    elif ir.get("reset"):
        progs += [{"kind": "reset"}, {"kind": "snippet", "source": AFTER_RESET}]
    return progs


def tape_hex(rng, rate, nbytes=4096):
    tape = bytearray(nbytes)
    for i in range(nbytes * 8):
        if rng.below(rate) == 0:
            tape[i // 8] |= 1 << (i % 8)
    return tape.hex()


def thin_tape(hexs):
    """candidates with fewer collection points (for minimisation)"""
    bs = bytearray.fromhex(hexs)
    ones = [i for i in range(len(bs) * 8) if bs[i // 8] & (1 << (i % 8))]
    if len(ones) <= 1:
        return
    half = len(ones) // 2
    for part in (ones[:half], ones[half:]):
        t = bytearray(len(bs))
        for i in part:
            t[i // 8] |= 1 << (i % 8)
        yield t.hex()


class C01:
    ID = "C01"
    LEVEL = "exploration"
    TIMEOUT = 40.0
    RULE = ("case = generated heap-shape program: 3-9 gadgets, each either a retention chain root -> e1..e4 -> target (19 edge kinds "
            "x 18 target kinds x %d root kinds; the chain is the only path to the target; allocation churn between building and "
            "reading it back) or one of %d operations that make the interpreter hold fresh unreferenced objects mid-operation "
            "(%d of them failing; the error message is read back afterwards, so that the error object is allocated meanwhile); every case is executed under never-collect, "
            "collect-at-every-allocation and a PRNG collection tape (rate 1/2, 1/8 or 1/64), all with quarantine (monitors: use after "
            "reclaim on every managed dereference, nothing reclaimed while borrowed), then on the plain checked build (collects at "
            "every allocation and really frees: address reuse), and 1/24 of the cases on that build under valgrind memcheck; every "
            "run is compared with the never-collect run. In addition every script of the repository's test corpus and 400 (thorough: 40 000) generated programs that "
            "call every built-in method and operator with awkward arguments (C10's NAT generator) - programs nobody wrote with the collector in mind - "
            "run under the same schedules and monitors (printed lines, outcome and error messages compared, addresses masked). non-trivial = the always run reclaimed >= 1 object and the case has >= 1 "
            "chain; distinct = distinct program hash" % (len(ROOTS), len(OPS) + len(FAIL_OPS), len(FAIL_OPS)))
    COMPONENTS = {"real": ["yarel compiler", "VM", "heap: mark_roots/trace_references/sweep and every GcManaged impl", "Root/UniqueRoot handles", "core library"],
                  "stub": ["collection pacing decision (never / always / tape) and reclamation (quarantine instead of free) via verif_hooks",
                           "use-after-reclaim monitor on every managed dereference and open-captured-variable access; reclaimed-while-borrowed monitor at every sweep",
                           "valgrind memcheck around the unmodified runner binary (slice)"]}
    ASSUMPTIONS = ["collect-at-every-allocation dominates every other schedule for detecting a missing trace edge (quarantined objects keep their contents, so the program computes the same values under every schedule)",
                   "a premature reclaim is only visible if the program later touches the object (every gadget reads its target back)",
                   "real free() is exercised by the plain checked run and the memcheck slice only (glibc's allocator under the plain run, valgrind's under memcheck)"]

    def configs(self, tier):
        return ["checked+hooks", "checked"]

    def plan(self, tier):
        return self.n_foreign(tier) + (6000 if tier == "quick" else 500000)

    def n_foreign(self, tier):
        """programs nobody wrote with the collector in mind: the repository's whole script corpus plus generated programs
        that call every built-in with awkward arguments (the NAT generator of C10), all run under the same schedules"""
        from . import c10
        return len(c10.scripts()[0]) + (400 if tier == "quick" else 40000)

    def wall_cap(self, tier):
        return 240 if tier == "quick" else 3300

    def generate(self, seed, idx, tier):
        nf = self.n_foreign(tier)
        if idx < nf:
            from . import c10
            ns = len(c10.scripts()[0])
            rng = Rng(derive(seed, "C01-foreign", idx))
            sc = {"case": "script", "index": idx} if idx < ns else {"case": "nat", "nseed": derive(seed, "C01-NAT", idx - ns)}
            sc["gc_tape"] = tape_hex(rng, rng.choice([2, 8, 64]))
            return sc
        idx -= nf           # (the generated heap-shape programs keep the seeds they had before the foreign families were added)
        cseed = derive(seed, "C01", idx)
        rng = Rng(derive(cseed, "gc"))
        return {"ir": gen_ir(cseed), "gc_rate": rng.choice([2, 8, 64]), "gc_tape": tape_hex(rng, rng.choice([2, 8, 64]))}

    def check_foreign(self, sc, ctx):
        """a corpus script or a NAT program under never / always / tape (quarantine, monitors) and on the plain checked build"""
        from . import c10
        stats = Stats()
        fam = sc["case"]
        fs = {}
        if fam == "script":
            lst, fs = c10.scripts()
            name, src = lst[sc["index"]]
            base_cfg = {"display": True}
        else:
            name, src = "nat", c10.nat_program(sc["nseed"])
            base_cfg = {}
        src = sc.get("source", src)         # (a minimised replay file carries its own text)
        if name.startswith("c10_extra/"):
            # C10's own boundary scripts (a 17 000-entry map enumerated in every way ...) are sized for C10's time limit, not for
            # collection at every allocation with quarantine: on a busy machine one of them ran into the watchdog (a false alarm
            # seen while the sensitivity matrix was running, 11.4). Only the repository's own scripts are used here.
            stats = Stats()
            stats.inc("foreign_skipped_c10_extra")
            return {"stats": stats, "nontrivial": False}
        if sc.get("force_collection_at_marker"):
            # one collection, forced where the program's text says /*GC*/, on a thread with the native stack of a host's main
            # thread (8 MiB): the comparison run is the same program without it
            return self.check_forced(sc, ctx, stats, src)
        one = {"programs": [{"kind": "snippet", "source": src}], "tape": [], "faults": {}, "fs": fs}
        stats.inc("scenarios")
        stats.inc("foreign:" + fam)
        res = {"stats": stats, "nontrivial": False, "key": stable_hash([fam, src]), "scenario": dict(sc, source=src, name=name)}

        def view(hh):
            return [(c10.norm_events(p_["events"]), c10.norm_outcome(p_["outcome"])) for p_ in hh["programs"]]
        ref = ctx.run("checked+hooks", dict(one, config=dict(base_cfg, gc={"mode": "never", "quarantine": True})))
        stats.inc("executions")
        po = process_outcome(ref)
        if po:
            # a script of the corpus that stops the process without any collection is not this property's business
            stats.inc("foreign_reference_aborts")
            return res
        ref_view = view(ref)
        stats.inc("events", sum(len(v_[0]) for v_ in ref_view))
        stats.inc("allocations", (ref.get("gc") or {}).get("allocs", 0))
        if fam == "nat" and ref["programs"][0]["outcome"].get("err") == "CompileError":
            return {"stats": stats, "nontrivial": False, "invalid": "NAT program does not compile"}
        runs = [("always", "checked+hooks", dict(base_cfg, gc={"mode": "always", "quarantine": True})),
                ("tape", "checked+hooks", dict(base_cfg, gc={"mode": "tape", "tape": sc.get("gc_tape", ""), "quarantine": True})),
                ("real-free", "checked", dict(base_cfg))]
        for label, build, cfg in runs:
            h = ctx.run(build, dict(one, config=cfg))
            stats.inc("executions")
            gc = h.get("gc") or {}
            if label != "real-free":
                stats.inc("collections:" + label, gc.get("collections", 0))
                stats.inc("reclaimed:" + label, gc.get("quarantined", 0))
                if label == "always" and gc.get("quarantined", 0) > 0:
                    res["nontrivial"] = True
            v = None
            po = process_outcome(h)
            if po:
                v = {"class": po[0], "msg": po[1]}
            elif gc.get("uar_count", 0) > 0:
                v = {"class": "use-after-reclaim", "msg": "%d use(s) of reclaimed objects; first: %s" % (gc["uar_count"], json.dumps(gc.get("uar", [])[:3]))}
            else:
                cur = view(h)
                if cur != ref_view:
                    a, b = ref_view[0], cur[0]
                    i = next((j for j in range(min(len(a[0]), len(b[0]))) if a[0][j] != b[0][j]), min(len(a[0]), len(b[0])))
                    if a[0] == b[0]:
                        msg = "outcome: never-collect %s, %s %s" % (json.dumps(a[1])[:250], label, json.dumps(b[1])[:250])
                    else:
                        msg = "event %d: never-collect %s, %s %s" % (i, json.dumps(a[0][i] if i < len(a[0]) else None)[:300], label,
                                                                     json.dumps(b[0][i] if i < len(b[0]) else None)[:300])
                    v = {"class": "output-depends-on-collector", "msg": msg}
            if v:
                v["config"] = build
                v["msg"] = "[%s/%s %s] %s" % (fam, name, label, v["msg"])
                res["violation"] = v
                return res
        if res["nontrivial"]:
            stats.inc("foreign_programs_in_which_objects_were_reclaimed")
        return res

    def check_forced(self, sc, ctx, stats, src):
        res = {"stats": stats, "nontrivial": True, "key": stable_hash(["forced", src]), "scenario": dict(sc, source=src)}
        cfg = {"gc": {"mode": "never", "quarantine": True}, "stack_mib": int(sc.get("stack_mib", 8))}
        outs = []
        for label, text in (("no collection", src.replace("/*GC*/", "")), ("one forced collection", src.replace("/*GC*/", 'print(("gc",));'))):
            h = ctx.run("checked+hooks", {"programs": [{"kind": "snippet", "source": text}], "tape": [], "faults": {}, "fs": {}, "config": cfg})
            stats.inc("executions")
            po = process_outcome(h)
            if po and label == "no collection":
                return res
            if po:
                res["violation"] = {"class": po[0], "config": "checked+hooks", "msg": "[%s] %s (the same program without the collection completes)" % (label, po[1])}
                return res
            outs.append([(p_["events"], p_["outcome"].get("ok"), p_["outcome"].get("err")) for p_ in h["programs"]])
            if (h.get("gc") or {}).get("uar_count", 0) > 0:
                res["violation"] = {"class": "use-after-reclaim", "config": "checked+hooks", "msg": "[%s] %d use(s) of reclaimed objects" % (label, h["gc"]["uar_count"])}
                return res
        if outs[0] != outs[1]:
            res["violation"] = {"class": "output-depends-on-collector", "config": "checked+hooks", "msg": "the forced collection changes the program's output"}
        return res

    def check(self, sc, ctx):
        if sc.get("case") in ("script", "nat"):
            return self.check_foreign(sc, ctx)
        stats = Stats()
        ir = sc["ir"]
        try:
            src = render(ir)
        except (ValueError, KeyError, IndexError) as e:
            return {"stats": stats, "nontrivial": False, "invalid": str(e)}
        fs = {"gcm": {"source": GCM, "reads": []}}
        for g_ in ir["gadgets"]:
            if g_[0] == "modfail":
                fs["gcfail%d" % g_[1]] = {"source": modfail_source(g_[1]), "reads": []}
        sc = dict(sc, programs=programs(ir), tape=[], faults={}, fs=fs)
        stats.inc("scenarios")
        for g in ir["gadgets"]:
            stats.inc("gadget:" + g[0])
            if g[0] == "chain":
                stats.inc("root:" + g[1])
                stats.inc("target:" + g[3])
                stats.inc("chain_length_%d" % len(g[2]))
                for e in g[2]:
                    stats.inc("edge:" + e)
                if g[2]:
                    stats.inc("edge_x_target:%s>%s" % (g[2][0], g[3]))
        res = {"stats": stats, "nontrivial": False, "key": stable_hash(ir), "scenario": sc}
        ref = ctx.run("checked+hooks", dict(sc, config={"gc": {"mode": "never", "quarantine": True}}))
        stats.inc("executions")
        po = process_outcome(ref)
        if po:
            res["violation"] = {"class": po[0], "msg": "[never-collect] " + po[1]}
            return res
        def flat(hh):
            evs, outs = [], []
            for pi, pp in enumerate(hh["programs"]):
                evs += [[pi] + [e_] for e_ in pp["events"]]
                outs.append((pp["outcome"].get("ok"), pp["outcome"].get("err"), pp["outcome"].get("reset")))
            return evs, outs
        ref_events, ref_outs = flat(ref)
        stats.inc("events", len(ref_events))
        # closed-form expectations for the operations that have one (events are [program, [gadget id, value]])
        for gi, g_ in enumerate(ir["gadgets"]):
            if g_[0] == "op" and OPS[g_[1]] in OPS_EXPECT:
                want = OPS_EXPECT[OPS[g_[1]]](g_[2])
                got = [e_[1][1] for e_ in ref_events if e_[0] == 0 and len(e_[1]) == 2 and e_[1][0] == _n(gi + 1)]
                if got:
                    stats.inc("closed_form_values_checked")
                    if got[0] != want:
                        res["violation"] = {"class": "captured-variable-lost", "msg": "gadget %d (%s): value %s, expected %s" % (
                            gi + 1, OPS[g_[1]].format(u=g_[2]), json.dumps(got[0])[:200], json.dumps(want)[:200])}
                        return res
        stats.inc("allocations", (ref.get("gc") or {}).get("allocs", 0))
        if any(o_[1] for o_ in ref_outs):
            # every failing operation of a generated program is wrapped in try/catch and every program is written to end
            # normally: on the unchanged tree no reference run ends with an error (the counter below stays at 0 over all the
            # seeds tried). A program that fails even when nothing is ever collected has lost a value it captured earlier
            # (or reads another one in its place), which is the property's statement with the schedule "no collection at all".
            stats.inc("reference_run_ended_with_error")
            res["violation"] = {"class": "program-fails-without-collection", "msg": "[never-collect] outcomes %s; last events %s" % (
                json.dumps(ref_outs)[:200], json.dumps(ref_events[-3:])[:300])}
            return res
        if ir.get("reset"):
            stats.inc("scenarios_with_reset")
        res["sample"] = {"source_tail": src[len(PRELUDE):], "reference_events": ref_events[:10]}
        for label, cfg in (("always", {"gc": {"mode": "always", "quarantine": True}}),
                           ("tape", {"gc": {"mode": "tape", "tape": sc.get("gc_tape", ""), "quarantine": True}})):
            h = ctx.run("checked+hooks", dict(sc, config=cfg))
            stats.inc("executions")
            gc = h.get("gc") or {}
            stats.inc("collections:" + label, gc.get("collections", 0))
            stats.inc("reclaimed:" + label, gc.get("quarantined", 0))
            if label == "always" and gc.get("quarantined", 0) > 0 and any(g[0] == "chain" for g in ir["gadgets"]):
                res["nontrivial"] = True
            v = None
            po = process_outcome(h)
            if po:
                v = {"class": po[0], "msg": po[1]}
            elif gc.get("uar_count", 0) > 0:
                v = {"class": "use-after-reclaim", "msg": "%d use(s) of reclaimed objects; first: %s" % (
                    gc["uar_count"], json.dumps(gc.get("uar", [])[:3]))}
            else:
                ev, outs = flat(h)
                if ev != ref_events:
                    i = next((j for j in range(min(len(ev), len(ref_events))) if ev[j] != ref_events[j]), min(len(ev), len(ref_events)))
                    v = {"class": "output-depends-on-collector", "msg": "event %d: never-collect %s, %s %s" % (
                        i, json.dumps(ref_events[i] if i < len(ref_events) else None)[:300], label, json.dumps(ev[i] if i < len(ev) else None)[:300])}
                else:
                    if outs != ref_outs:
                        v = {"class": "output-depends-on-collector", "msg": "outcome: never-collect %s, %s %s" % (json.dumps(ref_outs)[:200], label, json.dumps(outs)[:200])}
            if v:
                v["config"] = label
                v["msg"] = "[%s] %s" % (label, v["msg"])
                res["violation"] = v
                return res
        # the plain checked build: collects at every allocation and REALLY frees, so addresses are reused (the quarantine never
        # reuses one): anything that identifies an object by its address after it died answers differently here
        h = ctx.run("checked", dict(sc, config={}))
        stats.inc("executions")
        po = process_outcome(h)
        v = None
        if po:
            v = {"class": po[0], "msg": po[1]}
        else:
            ev, outs = flat(h)
            if ev != ref_events or outs != ref_outs:
                i = next((j for j in range(min(len(ev), len(ref_events))) if ev[j] != ref_events[j]), min(len(ev), len(ref_events)))
                v = {"class": "output-depends-on-collector", "msg": "event %d: never-collect %s, plain checked build (real frees) %s" % (
                    i, json.dumps(ref_events[i] if i < len(ref_events) else None)[:300], json.dumps(ev[i] if i < len(ev) else None)[:300])}
        if v:
            v["config"] = "checked"
            v["msg"] = "[real-free] " + v["msg"]
            res["violation"] = v
            return res
        # memcheck slice: the plain checked build (collects at every allocation and really frees) under valgrind. Sees what
        # the quarantine cannot: reads/writes of freed memory through raw pointers and borrow guards, invalid frees.
        if sc.get("memcheck", stable_hash(ir) % MEMCHECK_EVERY == 0):
            h = ctx.run("checked@memcheck", dict(sc, config={}))
            stats.inc("executions")
            stats.inc("memcheck_runs")
            po = process_outcome(h)
            v = None
            if po:
                v = {"class": po[0], "msg": po[1]}
            else:
                ev, outs = flat(h)
                if ev != ref_events or outs != ref_outs:
                    v = {"class": "output-depends-on-collector", "msg": "plain checked build (real frees) differs from the never-collect run"}
            if v:
                v["config"] = "checked@memcheck"
                v["msg"] = "[memcheck] " + v["msg"]
                res["violation"] = v
                res["scenario"] = dict(sc, memcheck=True)
                res["scenario"].pop("programs", None)
        return res

    def shrink(self, sc):
        import copy
        if sc.get("case") in ("script", "nat"):
            lines = (sc.get("source") or "").split("\n")
            n = len(lines)
            chunk = max(1, n // 8)
            while n > 1 and chunk >= 1:
                for lo in range(0, n, chunk):
                    cand = lines[:lo] + lines[lo + chunk:]
                    if cand:
                        yield dict(sc, source="\n".join(cand))
                if chunk == 1:
                    break
                chunk //= 2
            for t in thin_tape(sc.get("gc_tape", "")):
                yield dict(sc, gc_tape=t)
            return
        ir = sc["ir"]
        gs = ir["gadgets"]
        for i in range(len(gs) - 1, -1, -1):
            if len(gs) > 1:
                d = copy.deepcopy(ir)
                del d["gadgets"][i]
                yield dict(sc, ir=d)
        for i, g in enumerate(gs):
            if g[0] == "chain":
                if len(g[2]) > 1:
                    for j in range(len(g[2])):
                        d = copy.deepcopy(ir)
                        del d["gadgets"][i][2][j]
                        yield dict(sc, ir=d)
                if g[5] > 0:
                    d = copy.deepcopy(ir)
                    d["gadgets"][i][5] = 0
                    yield dict(sc, ir=d)
                if g[1] != "global":
                    d = copy.deepcopy(ir)
                    d["gadgets"][i][1] = "global"
                    yield dict(sc, ir=d)
                if g[3] != "vec":
                    d = copy.deepcopy(ir)
                    d["gadgets"][i][3] = "vec"
                    yield dict(sc, ir=d)
            elif g[0] == "op" and g[3] != "global":
                d = copy.deepcopy(ir)
                d["gadgets"][i][3] = "global"
                yield dict(sc, ir=d)
        for t in thin_tape(sc.get("gc_tape", "")):
            yield dict(sc, gc_tape=t)

    def summarize(self, stats, tier):
        pairs = {k[len("edge_x_target:"):]: v for k, v in stats.items() if k.startswith("edge_x_target:")}
        return {"edges_exercised": {k[len("edge:"):]: v for k, v in stats.items() if k.startswith("edge:")},
                "targets_exercised": {k[len("target:"):]: v for k, v in stats.items() if k.startswith("target:")},
                "roots_exercised": {k[len("root:"):]: v for k, v in stats.items() if k.startswith("root:")},
                "edge_x_target_pairs_exercised": len(pairs), "edge_x_target_pairs_possible": len(EDGES) * len(TARGETS),
                "collections": {k[len("collections:"):]: v for k, v in stats.items() if k.startswith("collections:")},
                "objects_reclaimed": {k[len("reclaimed:"):]: v for k, v in stats.items() if k.startswith("reclaimed:")},
                "foreign_programs": {k[len("foreign:"):]: v for k, v in stats.items() if k.startswith("foreign")},
                "logical_time": {"allocations_reference_run": stats.get("allocations", 0), "events": stats.get("events", 0)}}


PROP = C01()
