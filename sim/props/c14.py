"""C14 - modules load once, keep their own globals, and cycles are reported.

Simulated: real StartImport/FinishImport, the compiler invoked by import, active-module switching on every frame
change, built-in seeding of each module. Stub: the *file system*, through the existing Vm::set_module_loader seam:
per read the simulator serves the source, "not found", a read error (each of the default loader's reason strings),
garbled content, content truncated at a statement boundary, or a transient fault (fails k times, then succeeds).
Import order and import sites are chosen at run time from the decision tape: the driver imports modules, calls
functions of imported modules (which import further), and loads modules inside fibers that suspend in the middle
of a module body (a half-loaded module must be reported as such to whoever imports it meanwhile, never re-run).
Oracle: a module-system reference model (registry, per-module globals, the same fault plan).
"""
import json

from ..prng import Rng, derive
from ..values import num, s, b, cls, tup, first_diff, ERROR_KINDS
from ..core import process_outcome, Stats, stable_hash

IO_REASONS = ["permission denied", "connection refused", "connection reset", "connection aborted", "not connected",
              "address in use", "address not available", "broken pipe", "already exists", "would block",
              "invalid input", "invalid data", "timed out", "write zero", "interrupted", "other",
              "unexpected end-of-file"]
GARBLED = ["var = ;", "fn f( {", "print((\"ev\", 1);", "class { } }", "import ;"]


def mod_path(m):
    return m["path"]


def gen_ir(seed):
    rng = Rng(seed)
    n = rng.range(2, 7)
    shape = rng.choice(["dag", "chain", "diamond", "cycle2", "cycle3", "self", "mixed", "mixed"])
    p_try = rng.choice([0.3, 0.6, 0.9])
    p_susp = rng.choice([0.0, 0.15, 0.3])
    p_chk = rng.choice([0.0, 0.1, 0.25])
    sites = [0]

    def site():
        sites[0] += 1
        return "s%d" % sites[0]

    edges = {k: [] for k in range(n)}
    if shape == "chain":
        for k in range(n - 1):
            edges[k].append(k + 1)
    elif shape == "diamond" and n >= 4:
        edges[0] += [1, 2]
        edges[1].append(3)
        edges[2].append(3)
        for k in range(4, n):
            edges[rng.below(k)].append(k)
    elif shape == "cycle2":
        edges[0].append(1)
        edges[1].append(0)
    elif shape == "cycle3" and n >= 3:
        edges[0].append(1)
        edges[1].append(2)
        edges[2].append(0)
    elif shape == "self":
        edges[0].append(0)
    if shape in ("dag", "mixed", "diamond", "cycle2", "cycle3", "self"):
        for k in range(n):
            for j in range(k + 1, n):
                if rng.chance(0.3):
                    edges[k].append(j)
    if shape == "mixed":
        for _ in range(rng.range(0, 2)):
            edges[rng.below(n)].append(rng.below(n))
    mods = []
    core_k = rng.below(n) if rng.chance(0.15) else None
    for k in range(n):
        stmts = []
        targets = rng.shuffle(sorted(set(edges[k]))) if edges[k] else []
        for j in targets:
            how = "try" if rng.chance(p_try) else rng.choice(["top", "alias"])
            if j <= k and rng.chance(0.85):
                how = "try"       # back edge: closes a cycle
            stmts.append(["imp", j, how])
            if how != "try" and rng.chance(0.6):
                stmts.append(["use", j])
            if rng.chance(0.3):
                stmts.append(["setg", rng.below(90)])
        extra = []
        for _ in range(rng.range(0, 3)):
            x = rng.below(100)
            if x < p_susp * 100:
                extra.append(["susp"])
            elif x < (p_susp + p_chk) * 100:
                extra.append(["chk", site()])
            elif x < 70:
                extra.append(["ev", sites[0] * 100 + len(extra)])
            else:
                extra.append(["setg", rng.below(90)])
        # interleave extras at random positions
        for e in extra:
            stmts.insert(rng.below(len(stmts) + 1), e)
        # "use" must stay after its import: repair order
        fixed = []
        bound = set()
        pending = []
        for st in stmts:
            if st[0] == "imp" and st[2] != "try":
                fixed.append(st)
                bound.add(st[1])
            elif st[0] == "use":
                if st[1] in bound:
                    fixed.append(st)
                else:
                    pending.append(st)
            else:
                fixed.append(st)
        stmts = fixed
        path = ("lib/m%d" % k) if rng.chance(0.25) else ("m%d" % k)
        if k == core_k:
            path = "core"       # an ordinary name for a module of one's own
        lazy = rng.below(n) if rng.chance(0.6) else None
        # file-system behaviour for this module's reads
        reads = []
        x = rng.below(100)
        if x < 55:
            pass
        elif x < 70:
            for _ in range(rng.range(1, 2)):
                reads.append(rng.choice([["notfound"], ["ioerr", rng.choice(IO_REASONS)]]))
        elif x < 78:
            reads.append(["garbled", rng.below(len(GARBLED))])
            if rng.chance(0.5):
                reads.append(["garbled", rng.below(len(GARBLED))])
        elif x < 88:
            reads.append(["trunc", rng.below(len(stmts) + 1)])
        elif x < 94:
            reads = [["notfound"]] * 400      # permanently missing
        else:
            reads = [["ioerr", rng.choice(IO_REASONS)], ["garbled", 0], ["trunc", rng.below(len(stmts) + 1)]]
        mods.append({"path": path, "bind": "core" if path == "core" else "m%d" % k, "stmts": stmts, "lazy": lazy, "reads": reads})
    return {"mods": mods, "steps": rng.range(6, 40), "sites": sites[0], "shape": shape}


def module_text(ir, k, nstmts=None):
    m = ir["mods"][k]
    out = []
    out.append('print(("ev", "load", %d));' % k)
    out.append("var gv = %d;" % (k * 100 + 100))
    out.append("var own = %d;" % k)
    # the module rebinds a built-in name for itself: later imports of the module must not undo that
    out.append("fn clock() { return %d; }" % (5000 + k))
    out.append("var Range = %d;" % (6000 + k))
    out.append("fn shadowed() { return (clock(), Range); }")
    if k % 2 == 1:
        # plain assignment (no `var`) to a built-in name: only this module's own binding changes
        out.append("BuiltInMethod = %d;" % (7000 + k))
    out.append("fn assigned() { return BuiltInMethod; }")
    # module globals that hold a bound native method / a bound method / a class: `m.name(...)` must call them like any other value
    out.append("var store = [0]; var pushit = store.push;")
    out.append("#[constructor(new)] class Acc { fn add(self, x) { self.n = self.n + x; return self.n; } } var acc0 = Acc.new(); acc0.n = 0; var addit = acc0.add;")
    out.append("var nothing = nil;")       # a global that holds nil is still an attribute of the module
    # 140 more globals: together with their values well over 256 constants in this module's top-level chunk (the number of constants
    # before them differs from module to module, so every constant-pool index near 256 is a global's name in some module)
    out.append(" ".join("var V%d_%d = %d;" % (k, j, 1000 * k + j) for j in range(140)))
    out.append("fn sumv() { return %s; }" % " + ".join("V%d_%d" % (k, j) for j in range(140)))
    out.append("fn getg() { return gv; }")
    out.append("fn pipeline() { return [1, 2, 3].iter().map(|x| { return x + gv - gv + 1; }).filter(|x| { return x > 2; }).collect(); }")
    # a second global under a name that differs per module (so that no coincidence of name hashes can hide a stale look-up)
    out.append("var aux%d = %d; fn getaux() { return aux%d; }" % (k, k * 3, k))
    out.append("fn setg(x) { gv = x; return gv; }")
    out.append('fn peek() { var r = "leak"; try { r = main_only; } catch e { r = type(e); } return r; }')
    out.append('fn peek_class() { var r = "leak"; try { r = MainOnlyClass; r = "leak"; } catch e { r = type(e); } return r; }')
    out.append('fn peek_fn() { var r = "leak"; try { r = record; r = "leak"; } catch e { r = type(e); } return r; }')
    out.append('fn builtins() { return (type(1) == Num, [1, 2].len(), "ab".len(), [Fiber, Vec, HashMap, Tuple].len()); }')
    # every built-in class by name (clock and Range are rebound above on purpose), and the built-in functions
    out.append('fn builtin_classes() { return %s; }' % BUILTIN_CLASSES)
    out.append('fn builtin_fns() { return (type(type) == BuiltIn, type(print) == BuiltIn, type(builtin_fns) == Func, type([].push) == type([].pop), type(acc0.add) == Method); }')
    if m["lazy"] is not None:
        t = ir["mods"][m["lazy"]]
        out.append('fn lazy() { import "%s"; return %s.getg(); }' % (t["path"], t["bind"]))
    else:
        out.append("fn lazy() { return gv; }")
    stmts = m["stmts"] if nstmts is None else m["stmts"][:nstmts]
    for st in stmts:
        kd = st[0]
        if kd == "imp":
            t = ir["mods"][st[1]]
            if st[2] == "top":
                out.append('import "%s";' % t["path"])
            elif st[2] == "alias":
                out.append('import "%s" as a%d;' % (t["path"], st[1]))
            else:
                out.append('try { import "%s"; print(("ev", "imp", %d, %d, "ok", %s.getg())); } catch e { print(("ev", "imp", %d, %d, type(e))); }' % (
                    t["path"], k, st[1], t["bind"], k, st[1]))
        elif kd == "use":
            nm = None
            for st2 in m["stmts"]:
                if st2 is st:
                    break
                if st2[0] == "imp" and st2[1] == st[1] and st2[2] != "try":
                    nm = ir["mods"][st[1]]["bind"] if st2[2] == "top" else "a%d" % st[1]
            if nm is None:
                raise ValueError("use before import")
            out.append('print(("ev", "use", %d, %d, %s.getg(), %s.own));' % (k, st[1], nm, nm))
        elif kd == "chk":
            out.append('print(("chk", "%s"));' % st[1])
        elif kd == "susp":
            out.append('try { Fiber.yield("mid-%d"); } catch e { print(("ev", "susp-err", %d, type(e))); }' % (k, k))
        elif kd == "ev":
            out.append('print(("ev", "gv", %d, %d, gv));' % (k, st[1]))
        elif kd == "setg":
            out.append("gv = %d;" % st[1])
        else:
            raise ValueError(kd)
    if nstmts is None:
        out.append('print(("ev", "done", %d));' % k)
    return "\n".join(out) + "\n"


# every name a main script gets without importing anything: the classes of the built-in types, and the classes the core
# library defines (the iterator adaptors, Error and its subclasses, StopIter)
DEEP = 61       # script frame + 62 frames of deep() + the importing function = 64 frames, the limit


BUILTIN_CLASSES = ("[Type, Object, Nil, Bool, Num, Func, BuiltIn, Method, BuiltInMethod, String, Iter, MapIter, FilterIter, Tuple, Vec, HashMap, Fiber, "
                   "Error, RuntimeError, AttributeError, IndexError, ImportError, NameError, TypeError, ValueError, StopIter]")


def render(ir):
    n = len(ir["mods"])
    out = []
    e = out.append
    e("var gv = 7;")
    e("var clock = 4242;")      # the main script rebinds a built-in name; nothing an import does may undo that
    e("fn same_builtins(v) { var mine = %s; var n = 0; for i in 0..mine.len() { if v[i] == mine[i] { n = n + 1; } } return n * 100 + v.len(); }" % BUILTIN_CLASSES)
    e("var main_only = 1;")
    e("class MainOnlyClass { fn m(self) { return 1; } }")
    for k, m in enumerate(ir["mods"]):
        e('fn imp%d() { var r = nil; try { import "%s"; print(("ev", "drv-imp", %d, "ok", %s.getg())); r = %s; } catch e { print(("ev", "drv-imp", %d, type(e))); } return r; }' % (
            k, m["path"], k, m["bind"], m["bind"], k))
    # an import error that is propagating through a finally block which (through a function) loads another module for the
    # first time must still reach the handler
    for i in range(2):
        e('fn finload%d() { import "pl%d"; print(("ev", "fin-imp", %d, pl%d.getg())); }' % (i, i, i, i))
        e('fn finimp%d() { try { import "nope/missing%d"; } finally { finload%d(); } return "fell-through"; }' % (i, i, i))
    e("var finimps = [finimp0, finimp1];")
    # three different files whose paths differ only in leading `../` components are three different modules
    e('fn pathmods() { import "px"; import "../px" as pxu; import "../../px" as pxuu; px.gv = px.gv + 1; return (px.gv, pxu.gv, pxuu.gv, px == pxu, pxu == pxuu); }')
    e("var auxset = [%s];" % ", ".join("|m, x| { var b = m.getaux(); m.aux%d = x; return (b, m.getaux(), m.aux%d); }" % (k, k) for k in range(n)))
    # reads one of the 140 globals of module k as an attribute (which one: decided at run time)
    e("var vget = [%s];" % ", ".join("|m, x| { var t = [%s]; return t[x %% 40]; }" % ", ".join("m.V%d_%d" % (k, 100 + j) for j in range(40)) for k in range(n)))
    e("var imps = [%s];" % ", ".join("imp%d" % k for k in range(n)))
    # an import attempted with the call stack one frame short of its limit: running the module body is refused (IndexError), which
    # the importing function catches like any other failure of the import
    for k, m in enumerate(ir["mods"]):
        # (no call in the success path: there is no frame left for one)
        e('fn impd%d() { var r = nil; try { import "%s"; r = %s; print(("ev", "drv-imp", %d, "ok", %s.gv)); } catch e { print(("ev", "drv-imp", %d, type(e))); } return r; }' % (
            k, m["path"], m["bind"], k, m["bind"], k))
    e("var impds = [%s];" % ", ".join("impd%d" % k for k in range(n)))
    e("fn deep(n, k) { if n == 0 { return impds[k](); } return deep(n - 1, k); }")
    e("var mods = [%s];" % ", ".join("nil" for _ in range(n)))
    e("var fibs = [%s];" % ", ".join("nil" for _ in range(n)))
    e("fn record(k, r) {")
    e("  if r == nil { return nil; }")
    e('  if mods[k] != nil { print(("ev", "same", k, mods[k] == r)); }')
    e("  mods[k] = r;")
    e("}")
    e("for step in 0..%d {" % ir["steps"])
    e('  var a = print(("pick", 11)); var k = print(("pick", %d)); var v = print(("pick", 50));' % n)
    e("  if a < 3 {")
    e("    if v %% 10 == 7 { record(k, deep(%d, k)); } else { record(k, imps[k]()); }" % DEEP)
    e("  } else if a == 3 {")
    e('    if mods[k] != nil { print(("ev", "getg", k, mods[k].getg(), mods[k].gv)); } else { print(("ev", "skip")); }')
    e("  } else if a == 4 {")
    e('    if mods[k] != nil {')
    e('      if v % 2 == 0 { print(("ev", "setg", k, mods[k].setg(v))); }')
    # ... or the importer assigns the module's global through the module object: the module's own code must see it
    e('      else if v % 4 == 1 { var before = mods[k].getg(); mods[k].gv = v; print(("ev", "setattr", k, before, mods[k].getg(), mods[k].gv)); }')
    e('      else { print(("ev", "setaux", k, auxset[k](mods[k], v))); }')
    e('    } else { print(("ev", "skip")); }')
    e("  } else if a == 5 {")
    e('    if mods[k] != nil { try { print(("ev", "lazy", k, mods[k].lazy())); } catch e { print(("ev", "lazy", k, type(e))); } } else { print(("ev", "skip")); }')
    e("  } else if a < 8 {")
    e("    if fibs[k] == nil { fibs[k] = Fiber.new(imps[k]); } else if fibs[k].has_finished() { fibs[k] = Fiber.new(imps[k]); }")
    e("    var r = fibs[k].call();")
    e('    if type(r) == String { print(("ev", "fib", k, r)); } else { print(("ev", "fib", k, r != nil)); record(k, r); }')
    e("  } else if a == 8 {")
    e("    if mods[k] != nil {")
    e('      print(("ev", "iso", k, mods[k].peek(), mods[k].builtins(), mods[k].own, mods[k].peek_class(), mods[k].peek_fn(), mods[k].shadowed(), mods[k].pushit(7).len(), mods[k].addit(2), mods[k].Acc.new() != nil, same_builtins(mods[k].builtin_classes()), mods[k].builtin_fns(), mods[k].assigned() == BuiltInMethod, mods[k].assigned() == 7000 + k, mods[k].pipeline(), type, mods[k].nothing == nil, mods[k].sumv(), vget[k](mods[k], v)));')
    e('      try { mods[k].MainOnlyClass; print(("ev", "attr-leak", k)); } catch e { print(("ev", "attr2", k, type(e))); }')
    e('      try { mods[k].no_such_attribute; } catch e { print(("ev", "attr", k, type(e))); }')
    e('      try { print(("ev", "leak", own)); } catch e { print(("ev", "noleak", type(e))); }')
    e('    } else { print(("ev", "skip")); }')
    e("  } else if a == 10 && v % 3 == 0 {")
    e('    print(("ev", "pathmods", pathmods()));')
    e("  } else if a == 10 {")
    e('    var r = "none"; try { r = finimps[v % 2](); } catch e { r = type(e); } print(("ev", "finimp", v % 2, r));')
    e("  } else {")
    e('    gv = gv + 1; print(("ev", "maingv", gv, main_only, clock));')
    e("  }")
    e("}")
    e('print(("ev", "end", gv));')
    # the main script also rebinds `type` (it keeps the built-in under another name for its own use): what modules and the core
    # library do must not depend on main's globals
    text = "\n".join(out) + "\n"
    return "var ty = type;\nvar type = 4243;\n" + text.replace("type(", "ty(")


def fs_of(ir):
    fs = {}
    for k, m in enumerate(ir["mods"]):
        reads = []
        for r in m["reads"]:
            if r[0] == "notfound":
                reads.append("notfound")
            elif r[0] == "ioerr":
                reads.append("ioerr:" + r[1])
            elif r[0] == "garbled":
                reads.append("src:" + GARBLED[r[1]])
            elif r[0] == "trunc":
                reads.append("src:" + module_text(ir, k, r[1]))
            else:
                reads.append("ok")
        fs[m["path"]] = {"source": module_text(ir, k), "reads": reads}
    for tag, path in enumerate(["px", "../px", "../../px"]):
        fs[path] = {"source": 'var gv = %d; print(("ev", "load-px", %d));\n' % (500 + tag, tag), "reads": []}
    for i in range(2):
        fs["pl%d" % i] = {"source": 'var gv = %d; fn getg() { return gv; } print(("ev", "load-pl", %d));\n' % (77 + i, i), "reads": []}
    return fs


# ---- reference model ------------------------------------------------------------------------------

class ImportErr(Exception):
    pass


class Thrown(Exception):
    def __init__(self, klass):
        self.klass = klass


class Open(Exception):
    """Behaviour the property leaves open was reached: the run is executed but not compared."""
    def __init__(self, what):
        self.what = what


def model(ir, tape, faults, chooser=None):
    n = len(ir["mods"])
    ev = []
    tp = [0]
    occ = {}
    fired = []
    probes = Stats()
    taint = set()
    state = ["unloaded"] * n      # unloaded, loading, loaded, failed
    gv = [None] * n
    reads = [0] * n
    loads = [0] * n
    maingv = [7]
    isos = [0] * n
    mods = [None] * n             # driver's record
    fibs = [None] * n             # None | generator (suspended) | "done"
    pl_loaded = [False, False]
    aux = [k_ * 3 for k_ in range(n)]
    px_loaded = [False]
    px_gv = [500]

    def pick(m, purpose=None):
        if chooser is not None:
            x = chooser(m, purpose, state, mods, fibs)
            tape.append(x)
            tp[0] += 1
            return x % m
        if tp[0] < len(tape):
            x = tape[tp[0]]
            tp[0] += 1
        else:
            x = 0
        return x % m

    def chk(site):
        o = occ.get(site, 0) + 1
        occ[site] = o
        kd = faults.get(site, {}).get(str(o))
        if kd:
            fired.append((site, o, kd))
            probes.inc("fault_kind:" + kd)
            raise Thrown("RuntimeError" if kd == "CompileError" else kd)

    def do_import(j, in_fiber, site_kind, overflow=False):
        """generator: may yield suspension tokens (only when in_fiber); returns nothing; raises ImportErr/Thrown"""
        probes.inc("import_site:" + site_kind)
        if state[j] == "loaded":
            probes.inc("import_of_loaded")
            return
        if state[j] == "loading":
            probes.inc("import_of_loading_reported")
            raise ImportErr()
        if state[j] == "failed":
            raise Open("open:import-of-module-whose-body-failed")
        m = ir["mods"][j]
        r = m["reads"][reads[j]] if reads[j] < len(m["reads"]) else ["ok"]
        reads[j] += 1
        probes.inc("fs_read:" + r[0])
        if r[0] in ("notfound", "ioerr", "garbled"):
            raise ImportErr()
        if reads[j] > 1:
            probes.inc("transient_fault_then_loaded")
        if overflow:
            # read and compiled, but its body cannot be called: no frame left (the module stays registered, never loaded)
            state[j] = "failed"
            probes.inc("import_refused_at_the_frame_limit")
            raise Thrown("IndexError")
        stmts = m["stmts"] if r[0] == "ok" else m["stmts"][:r[1]]
        state[j] = "loading"
        loads[j] += 1
        if loads[j] > 1:
            raise AssertionError("model loaded a module twice")
        try:
            ev.append([s("load"), num(j)])
            gv[j] = j * 100 + 100
            bound = set()
            for st in stmts:
                kd = st[0]
                if kd == "imp":
                    t = st[1]
                    if st[2] == "try":
                        try:
                            yield from do_import(t, in_fiber, "module_try")
                            ev.append([s("imp"), num(j), num(t), s("ok"), num(gv[t])])
                        except ImportErr:
                            ev.append([s("imp"), num(j), num(t), cls("ImportError")])
                        except Thrown as th:
                            ev.append([s("imp"), num(j), num(t), cls(th.klass)])
                    else:
                        yield from do_import(t, in_fiber, "module_top" if st[2] == "top" else "module_alias")
                        bound.add(t)
                elif kd == "use":
                    ev.append([s("use"), num(j), num(st[1]), num(gv[st[1]]), num(st[1])])
                elif kd == "chk":
                    chk(st[1])
                elif kd == "susp":
                    if in_fiber:
                        probes.inc("module_suspended_mid_load")
                        yield "mid-%d" % j
                    else:
                        ev.append([s("susp-err"), num(j), cls("RuntimeError")])
                elif kd == "ev":
                    ev.append([s("gv"), num(j), num(st[1]), num(gv[j])])
                elif kd == "setg":
                    gv[j] = st[1]
            if r[0] == "ok":
                ev.append([s("done"), num(j)])
            else:
                probes.inc("module_loaded_from_truncated_source")
        except (ImportErr, Thrown):
            state[j] = "failed"
            probes.inc("module_body_failed")
            raise
        state[j] = "loaded"

    def imp_fn(k, in_fiber, overflow=False):
        """the driver's impK(): generator; returns True (module object) or None"""
        try:
            yield from do_import(k, in_fiber, "driver_fiber" if in_fiber else "driver", overflow)
            ev.append([s("drv-imp"), num(k), s("ok"), num(gv[k])])
            return True
        except ImportErr:
            probes.inc("import_error_caught")
            ev.append([s("drv-imp"), num(k), cls("ImportError")])
            return None
        except Thrown as th:
            ev.append([s("drv-imp"), num(k), cls(th.klass)])
            return None

    def record(k, r):
        if r is None:
            return
        if mods[k] is not None:
            ev.append([s("same"), num(k), b(True)])
        mods[k] = True

    def sync(gen):
        try:
            next(gen)
        except StopIteration as stop:
            return stop.value
        raise AssertionError("suspension outside a fiber")

    outcome = {"ok": True}
    try:
        for _step in range(ir["steps"]):
            a = pick(11, "action")
            k = pick(n, "module")
            v = pick(50, "value")
            if a < 3:
                record(k, sync(imp_fn(k, False, overflow=(v % 10 == 7))))
            elif a == 3:
                if mods[k] is not None:
                    ev.append([s("getg"), num(k), num(gv[k]), num(gv[k])])
                else:
                    ev.append([s("skip")])
            elif a == 4:
                if mods[k] is not None:
                    if v % 2 == 0:
                        gv[k] = v
                        ev.append([s("setg"), num(k), num(v)])
                    elif v % 4 == 1:
                        probes.inc("module_global_assigned_through_the_module_object")
                        ev.append([s("setattr"), num(k), num(gv[k]), num(v), num(v)])
                        gv[k] = v
                    else:
                        probes.inc("module_global_assigned_through_the_module_object")
                        ev.append([s("setaux"), num(k), tup(num(aux[k]), num(v), num(v))])
                        aux[k] = v
                else:
                    ev.append([s("skip")])
            elif a == 5:
                if mods[k] is not None:
                    lz = ir["mods"][k]["lazy"]
                    if lz is None:
                        ev.append([s("lazy"), num(k), num(gv[k])])
                    else:
                        try:
                            sync(do_import(lz, False, "function_called_later"))
                            ev.append([s("lazy"), num(k), num(gv[lz])])
                        except ImportErr:
                            ev.append([s("lazy"), num(k), cls("ImportError")])
                        except Thrown as th:
                            ev.append([s("lazy"), num(k), cls(th.klass)])
                else:
                    ev.append([s("skip")])
            elif a < 8:
                if fibs[k] is None or fibs[k] == "done":
                    fibs[k] = imp_fn(k, True)
                    probes.inc("fiber_started")
                else:
                    probes.inc("fiber_resumed_mid_load")
                try:
                    tok = next(fibs[k])
                    ev.append([s("fib"), num(k), s(tok)])
                except StopIteration as stop:
                    fibs[k] = "done"
                    ev.append([s("fib"), num(k), b(stop.value is not None)])
                    record(k, stop.value)
            elif a == 8:
                if mods[k] is not None:
                    isos[k] += 1
                    ev.append([s("iso"), num(k), cls("NameError"), tup(b(True), num(2), num(2), num(4)), num(k),
                               cls("NameError"), cls("NameError"), tup(num(5000 + k), num(6000 + k)),
                               num(1 + isos[k]), num(2 * isos[k]), b(True), num(2626 if k % 2 == 0 else 2526), tup(b(True), b(True), b(True), b(True), b(True)),
                               b(k % 2 == 0), b(k % 2 == 1), {"v": [num(3), num(4)]}, num(4243), b(True),
                               num(sum(1000 * k + j for j in range(140))), num(1000 * k + 100 + v % 40)])
                    ev.append([s("attr2"), num(k), cls("AttributeError")])
                    ev.append([s("attr"), num(k), cls("AttributeError")])
                    ev.append([s("noleak"), cls("NameError")])
                else:
                    ev.append([s("skip")])
            elif a == 10 and v % 3 == 0:
                if not px_loaded[0]:
                    px_loaded[0] = True
                    for tag in (0, 1, 2):
                        ev.append([s("load-px"), num(tag)])
                px_gv[0] += 1
                probes.inc("modules_differing_only_in_parent_directory_prefix")
                ev.append([s("pathmods"), tup(num(px_gv[0]), num(501), num(502), b(False), b(False))])
            elif a == 10:
                i = v % 2
                if not pl_loaded[i]:
                    pl_loaded[i] = True
                    probes.inc("module_first_loaded_inside_finally_with_import_error_in_flight")
                    ev.append([s("load-pl"), num(i)])
                ev.append([s("fin-imp"), num(i), num(77 + i)])
                ev.append([s("finimp"), num(i), cls("ImportError")])
            else:
                maingv[0] += 1
                ev.append([s("maingv"), num(maingv[0]), num(1), num(4242)])
        ev.append([s("end"), num(maingv[0])])
    except Open as o:
        taint.add(o.what)
    return {"events": ev, "outcome": outcome, "fired": fired, "probes": probes, "taint": taint, "tape_used": tp[0],
            "loads": loads, "reads": reads}


def make_tape(rng, ir, faults):
    p_import = rng.choice([0.25, 0.4, 0.6])
    p_fiber = rng.choice([0.1, 0.2, 0.35])

    def chooser(m, purpose, state, mods, fibs):
        if purpose == "action":
            x = rng.below(1000)
            if x < p_import * 1000:
                return rng.below(3)
            if x < (p_import + p_fiber) * 1000:
                return 6 + rng.below(2)
            return rng.choice([3, 4, 5, 5, 8, 9, 10])
        if purpose == "module":
            # resume suspended loaders and use loaded modules more often than chance would
            susp = [i for i in range(m) if fibs[i] not in (None, "done")]
            if susp and rng.chance(0.3):
                return rng.choice(susp)
            have = [i for i in range(m) if mods[i] is not None]
            if have and rng.chance(0.4):
                return rng.choice(have)
            return rng.below(m)
        return rng.below(m)
    tape = []
    try:
        model(ir, tape, faults, chooser)
    except Open:
        pass
    tape += [rng.below(1000) for _ in range(12)]
    return tape


def compare(exp, hist, ir):
    po = process_outcome(hist)
    if po:
        return {"class": po[0], "msg": po[1]}
    prog = hist["programs"][0]
    act = prog["events"]
    out = prog["outcome"]
    # independent of the model's event sequence: a module body must never run twice
    seen = {}
    for e in act:
        if len(e) == 2 and e[0] == {"s": "load"}:
            kx = json.dumps(e[1])
            seen[kx] = seen.get(kx, 0) + 1
            if seen[kx] > 1:
                return {"class": "loaded-twice", "msg": "module %s executed its top-level code twice" % kx}
    d = first_diff(exp["events"], act)
    if d is not None:
        i, e, a = d
        return {"class": "history", "msg": "event %d: expected %s got %s" % (i, json.dumps(e), json.dumps(a)),
                "detail": {"expected_tail": exp["events"][max(0, i - 4):i + 2], "actual_tail": act[max(0, i - 4):i + 2],
                           "actual_outcome": out, "fs_reads": hist.get("fs_reads")}}
    if not out.get("ok"):
        return {"class": "outcome", "msg": "expected normal completion (every import error is caught), got %s" % json.dumps(out)[:300]}
    nreads = {}
    for p_, what in hist.get("fs_reads", []):
        nreads[p_] = nreads.get(p_, 0) + 1
    for k, m in enumerate(ir["mods"]):
        if nreads.get(m["path"], 0) != exp["reads"][k]:
            return {"class": "fs-reads", "msg": "module %s was read %d times, model says %d" % (m["path"], nreads.get(m["path"], 0), exp["reads"][k])}
    return None


class C14:
    ID = "C14"
    LEVEL = "exploration"
    TIMEOUT = 30.0
    RULE = ("case = generated import graph over 2-7 modules (chain, DAG, diamond, self-loop, 2-/3-cycle, mixtures; imports at module top "
            "level, under alias, inside try, inside functions called later, inside fibers) x a simulated file system (per read: ok / not "
            "found / read error / garbled / truncated at a statement boundary / transient) x fault points in module bodies x a decision "
            "tape choosing at run time which module the driver imports, calls into, mutates, or loads inside a fiber that suspends "
            "mid-load; checked and release builds. non-trivial = >= 2 modules read; distinct = distinct hash of (graph, fs plan, tape)")
    COMPONENTS = {"real": ["yarel compiler (invoked by import)", "VM StartImport/FinishImport, active-module switching, built-in seeding",
                           "fibers suspending inside module bodies", "exception unwinding across module boundaries"],
                  "stub": ["file system behind Vm::set_module_loader (sources and injected faults)", "decision tape", "fault-point native"]}
    ASSUMPTIONS = ["importing a module whose body previously failed part-way is left open by the property (ImportError or the same object, never a second execution): such runs are executed, must not crash or re-run the body, and are not compared (counted as tainted)",
                   "import errors are compared by class (ImportError), not by message"]

    def configs(self, tier):
        return ["checked", "release", "checked+hooks"]     # (the hooks build runs the fixed host-side sessions under the use-after-reclaim monitor)

    def plan(self, tier):
        return 20000 if tier == "quick" else 1200000

    def wall_cap(self, tier):
        return 240 if tier == "quick" else 3300

    def generate(self, seed, idx, tier):
        if idx == 0:
            return {"default_loader": True}       # one fixed case per run: the interpreter's own loader and a file that does not exist
        if idx == 1:
            return {"host_printer": True}         # ... and one in which the host installs its printer again mid-session
        if idx == 2:
            return {"host_peek": True}            # ... and one in which the host looks module globals up before any import
        if idx == 3:
            return {"host_loader": True}          # ... one in which the host installs its module loader again mid-session
        if idx == 4:
            return {"fiber_import": True}         # ... and one in which a module's first import is made by a fiber that never finishes it
        cseed = derive(seed, "C14", idx)
        ir = gen_ir(cseed)
        rng = Rng(derive(cseed, "tape"))
        faults = {}
        if ir["sites"] and rng.chance(0.5):
            for _ in range(rng.range(1, 2)):
                faults.setdefault("s%d" % rng.range(1, ir["sites"]), {})[str(1)] = rng.choice(ERROR_KINDS)
        tape = make_tape(rng, ir, faults)
        return {"ir": ir, "tape": tape, "faults": faults}

    DEFAULT_LOADER_PROGRAM = """fn tryimp() { try { import "/nonexistent-verif-dir/no_such_module"; return "loaded"; } catch e { return (type(e), e.derives(ImportError), e.derives(RuntimeError)); } }
print(("ev", "dl", tryimp()));
print(("ev", "dl", tryimp()));
try { import "no_such_module_in_the_working_directory_verif"; } catch e2 { print(("ev", "dl2", type(e2))); }
"""

    def check_default_loader(self, sc, ctx):
        """The interpreter's own loader (no simulated file system): a file that does not exist is an ImportError."""
        stats = Stats()
        stats.inc("default_loader_cases")
        want = [[s("dl"), tup(cls("ImportError"), b(True), b(False))], [s("dl"), tup(cls("ImportError"), b(True), b(False))],
                [s("dl2"), cls("ImportError")]]
        run_sc = {"programs": [{"kind": "snippet", "source": self.DEFAULT_LOADER_PROGRAM}], "fs": {}, "tape": [], "faults": {},
                  "config": {"default_loader": True}}
        res = {"stats": stats, "nontrivial": False, "key": 1, "scenario": dict(sc)}
        for config in ("checked", "release"):
            h = ctx.run(config, run_sc)
            stats.inc("executions")
            po = process_outcome(h)
            if po:
                res["violation"] = {"class": po[0], "msg": "[%s] default loader: %s" % (config, po[1])}
                return res
            ev = h["programs"][0]["events"]
            if ev != want or not h["programs"][0]["outcome"].get("ok"):
                res["violation"] = {"class": "default-loader", "msg": "[%s] importing a file that does not exist through the interpreter's own loader: expected %s, got %s (%s)" % (
                    config, json.dumps(want), json.dumps(ev)[:300], json.dumps(h["programs"][0]["outcome"])[:150])}
                return res
        return res

    PRINTER_MODULE = """var log = [];
fn print(x) { log.push(x); return log.len(); }
fn say(x) { return print(x); }
"""

    def check_host_peek(self, sc, ctx):
        """The host looks globals of modules up BEFORE the script imports them: one module exists, one does not. Whatever that does to
        the module table, a module that does not exist is still an ImportError for the importing statement, and a module that
        exists either loads (its code runs) or is refused with an ImportError - never silently replaced by an empty one."""
        stats = Stats()
        stats.inc("host_peek_cases")
        src = ('fn imp(p) { return 0; }\n'
               'var a = "none"; try { import "hp_missing"; a = "bound"; } catch e { a = type(e); }\n'
               'var b2 = "none"; try { import "hp_real"; b2 = hp_real.tag; } catch e { b2 = type(e); }\n'
               'print(("ev", "peek", a, b2));\n')
        progs = [{"kind": "peek", "module": "hp_missing", "name": "x"}, {"kind": "peek", "module": "hp_real", "name": "tag"},
                 {"kind": "snippet", "source": src}]
        run_sc = {"programs": progs, "fs": {"hp_real": {"source": 'print(("ev", "load-hp"));\nvar tag = 77;\n', "reads": []}},
                  "tape": [], "faults": {}, "config": {}}
        res = {"stats": stats, "nontrivial": False, "key": 3, "scenario": dict(sc)}
        ok_variants = ([[s("peek"), cls("ImportError"), cls("ImportError")]],                       # both refused
                       [[s("load-hp")], [s("peek"), cls("ImportError"), num(77)]])                  # the real one loads
        for config in ("checked", "release"):
            h = ctx.run(config, run_sc)
            stats.inc("executions")
            po = process_outcome(h)
            if po:
                res["violation"] = {"class": po[0], "msg": "[%s] host peek: %s" % (config, po[1])}
                return res
            got = h["programs"][2]["events"]
            if got not in ok_variants or not h["programs"][2]["outcome"].get("ok"):
                res["violation"] = {"class": "host-peek", "msg": "[%s] imports after the host looked the modules up: %s (%s)" % (
                    config, json.dumps(got)[:300], json.dumps(h["programs"][2]["outcome"])[:120])}
                return res
        return res

    def fixed_session(self, sc, ctx, label, progs, fs, judge):
        """Runs one fixed session in the plain builds and under the use-after-reclaim monitor with a collection at every allocation;
        judge(histories per program) -> None or a message."""
        stats = Stats()
        stats.inc(label + "_cases")
        res = {"stats": stats, "nontrivial": False, "key": label, "scenario": dict(sc)}
        for config, cfg in (("checked", {}), ("release", {}), ("checked+hooks", {"gc": {"mode": "always", "quarantine": True}})):
            run_sc = {"programs": progs, "fs": {k_: {"source": v_, "reads": []} for k_, v_ in fs.items()}, "tape": [], "faults": {}, "config": cfg}
            h = ctx.run(config, run_sc)
            stats.inc("executions")
            po = process_outcome(h)
            gc = h.get("gc") or {}
            if po:
                res["violation"] = {"class": po[0], "msg": "[%s] %s: %s" % (config, label, po[1])}
                return res
            if gc.get("uar_count", 0) > 0:
                res["violation"] = {"class": "use-after-reclaim", "msg": "[%s] %s: %d use(s) of reclaimed objects; first: %s" % (
                    config, label, gc["uar_count"], json.dumps(gc.get("uar", [])[:3]))}
                return res
            msg = judge([p_["events"] for p_ in h["programs"]], [p_["outcome"] for p_ in h["programs"]])
            if msg:
                res["violation"] = {"class": label, "msg": "[%s] %s" % (config, msg)}
                return res
        return res

    def check_host_loader(self, sc, ctx):
        """The host installs its module loader again (the same one) between two snippets: modules loaded so far stay loaded - one
        object per path, its top-level code run once, its globals shared by everyone who imported it, before or after."""
        fs = {"cm": 'print(("ev", "load-cm"));\nimport "cm2";\nvar count = 0;\nfn bump() { count = count + 1; cm2.total = cm2.total + 10; return count; }\n',
              "cm2": 'print(("ev", "load-cm2"));\nvar total = 0;\n'}
        progs = [{"kind": "snippet", "source": 'import "cm";\ncm.bump(); cm.bump();\nvar keep = cm; var fb = cm.bump;\nprint(("ev", "a", cm.count));\n'},
                 {"kind": "setloader"},
                 {"kind": "snippet", "source": 'var junk = []; for i in 0..40 { junk.push([i]); }\nprint(("ev", "fb", fb()));\nimport "cm"; import "cm2";\ncm.bump();\n'
                                               'print(("ev", "b", cm.count, cm == keep, keep.count, cm2.total));\n'}]
        want = [[[s("load-cm")], [s("load-cm2")], [s("a"), num(2)]], [], [[s("fb"), num(3)], [s("b"), num(4), b(True), num(4), num(40)]]]

        def judge(evs, outs):
            if evs != want:
                return "modules after the host installed its loader again: expected %s, got %s" % (json.dumps(want), json.dumps(evs)[:400])
        return self.fixed_session(sc, ctx, "host_loader", progs, fs, judge)

    def check_fiber_import(self, sc, ctx):
        """A module's first import is made inside a fiber; the module's top-level code yields, and the fiber is dropped and collected.
        A later import of that module either reports an ImportError (the module never finished loading) or loads it - and nothing
        reads the fiber that is gone."""
        fs = {"ym": 'print(("ev", "load-ym"));\nFiber.yield(7);\nvar done = 1;\n'}
        src = ('var f = Fiber.new(|| { import "ym"; return 1; });\nprint(("ev", "first", f.call()));\nf = nil;\n'
               'var junk = []; for i in 0..60 { junk.push([i, "s${i}"]); }\n'
               'fn again() { try { import "ym"; return ym.done; } catch e { return type(e); } }\n'
               'print(("ev", "again", again()));\nprint(("ev", "again", again()));\n')
        progs = [{"kind": "snippet", "source": src}, {"kind": "snippet", "source": 'var r = "none"; try { import "ym"; r = "bound"; } catch e { r = type(e); }\nprint(("ev", "later", r));\n'}]

        def judge(evs, outs):
            head = [[s("load-ym")], [s("first"), num(7)]]
            refused = [[s("again"), cls("ImportError")], [s("again"), cls("ImportError")]]
            loaded = [[s("load-ym")], [s("again"), num(1)], [s("again"), num(1)]]
            if evs[0] not in (head + refused, head + loaded) or not outs[0].get("ok"):
                return "import of a module whose first import a dropped fiber never finished: %s (%s)" % (json.dumps(evs[0])[:400], json.dumps(outs[0])[:120])
            if evs[1] not in ([[s("later"), cls("ImportError")]], [[s("later"), s("bound")]], [[s("load-ym")], [s("later"), s("bound")]]):
                return "import in the next snippet: %s" % json.dumps(evs[1])[:300]
        return self.fixed_session(sc, ctx, "fiber_import", progs, fs, judge)

    def check_host_printer(self, sc, ctx):
        """A module has a global of its own called `print`; the host installs its printer again between two snippets."""
        stats = Stats()
        stats.inc("host_printer_cases")
        progs = [{"kind": "snippet", "source": 'import "pm";\nvar p = print;\np(("ev", "a", pm.say(5), pm.log.len()));\n'},
                 {"kind": "setprinter"},
                 {"kind": "snippet", "source": 'import "pm";\nprint(("ev", "b", pm.say(6), pm.log.len(), pm.log[1]));\n'}]
        want = [[[s("a"), num(1), num(1)]], [], [[s("b"), num(2), num(2), num(6)]]]
        run_sc = {"programs": progs, "fs": {"pm": {"source": self.PRINTER_MODULE, "reads": []}}, "tape": [], "faults": {}, "config": {}}
        res = {"stats": stats, "nontrivial": False, "key": 2, "scenario": dict(sc)}
        for config in ("checked", "release"):
            h = ctx.run(config, run_sc)
            stats.inc("executions")
            po = process_outcome(h)
            if po:
                res["violation"] = {"class": po[0], "msg": "[%s] host printer: %s" % (config, po[1])}
                return res
            got = [p_["events"] for p_ in h["programs"]]
            if got != want:
                res["violation"] = {"class": "host-printer", "msg": "[%s] a module's own global `print` after the host installed its printer again: expected %s, got %s" % (
                    config, json.dumps(want), json.dumps(got)[:300])}
                return res
        return res

    def check(self, sc, ctx):
        if sc.get("default_loader"):
            return self.check_default_loader(sc, ctx)
        if sc.get("host_printer"):
            return self.check_host_printer(sc, ctx)
        if sc.get("host_peek"):
            return self.check_host_peek(sc, ctx)
        if sc.get("host_loader"):
            return self.check_host_loader(sc, ctx)
        if sc.get("fiber_import"):
            return self.check_fiber_import(sc, ctx)
        stats = Stats()
        ir = sc["ir"]
        try:
            src = render(ir)
            fs = fs_of(ir)
            exp = model(ir, sc["tape"], sc["faults"])
        except (ValueError, KeyError, IndexError) as e:
            return {"stats": stats, "nontrivial": False, "invalid": str(e)}
        sc = dict(sc, programs=[{"kind": "snippet", "source": src}], fs=fs)
        stats.merge(exp["probes"])
        stats.inc("scenarios")
        stats.inc("shape:" + ir.get("shape", "?"))
        stats.inc("events_expected", len(exp["events"]))
        stats.inc("decisions", exp["tape_used"])
        stats.inc("modules", len(ir["mods"]))
        stats.inc("faults_fired", len(exp["fired"]))
        key = stable_hash([ir, sc["tape"][:exp["tape_used"]], sc["faults"]])
        res = {"stats": stats, "nontrivial": sum(1 for r in exp["reads"] if r) >= 2, "key": key, "scenario": sc,
               "sample": {"main": src, "modules": {k_: v_["source"] for k_, v_ in fs.items()},
                          "fs_reads": {k_: v_["reads"] if not any(x.startswith("src:") for x in v_["reads"]) else [x[:40] for x in v_["reads"]] for k_, v_ in fs.items()},
                          "tape_prefix": sc["tape"][:30], "expected_events_prefix": exp["events"][:30]}}
        if exp["taint"] and not sc.get("ignore_taint"):
            res["taints"] = sorted(exp["taint"])
            stats.inc("scenarios_tainted")
            h = ctx.run("checked", sc)
            stats.inc("executions")
            po = process_outcome(h)
            if po:
                res["violation"] = {"class": po[0], "msg": "[checked] " + po[1]}
            else:
                # even in the open region a module body must never run twice
                seen = {}
                for e in h["programs"][0]["events"]:
                    if len(e) == 2 and e[0] == {"s": "load"}:
                        kx = json.dumps(e[1])
                        seen[kx] = seen.get(kx, 0) + 1
                        if seen[kx] > 1:
                            res["violation"] = {"class": "loaded-twice", "msg": "[checked] module %s executed its top-level code twice" % kx}
            return res
        for config in ("checked", "release"):
            h = ctx.run(config, sc)
            stats.inc("executions")
            v = compare(exp, h, ir)
            if v:
                v["config"] = config
                v["msg"] = "[%s] %s" % (config, v["msg"])
                res["violation"] = v
                return res
        return res

    def shrink(self, sc):
        import copy
        if sc.get("default_loader") or sc.get("host_printer") or sc.get("host_peek") or sc.get("host_loader") or sc.get("fiber_import"):
            return
        ir = sc["ir"]
        for site in sorted(sc["faults"]):
            yield dict(sc, faults={k: v for k, v in sc["faults"].items() if k != site})
        if ir["steps"] > 1:
            for nn in sorted(set([ir["steps"] // 2, ir["steps"] - 1])):
                if nn >= 1:
                    d = copy.deepcopy(ir)
                    d["steps"] = nn
                    yield dict(sc, ir=d)
        for k, m in enumerate(ir["mods"]):
            if m["reads"]:
                d = copy.deepcopy(ir)
                d["mods"][k]["reads"] = []
                yield dict(sc, ir=d)
            for i in range(len(m["stmts"])):
                d = copy.deepcopy(ir)
                st = d["mods"][k]["stmts"][i]
                del d["mods"][k]["stmts"][i]
                # fix truncation counts
                d["mods"][k]["reads"] = [([r[0], min(r[1], len(d["mods"][k]["stmts"]))] if r[0] == "trunc" else r) for r in d["mods"][k]["reads"]]
                yield dict(sc, ir=d)
            if m["lazy"] is not None:
                d = copy.deepcopy(ir)
                d["mods"][k]["lazy"] = None
                yield dict(sc, ir=d)
            if "/" in m["path"]:
                d = copy.deepcopy(ir)
                d["mods"][k]["path"] = m["bind"]
                yield dict(sc, ir=d)
        tape = sc["tape"]
        for i in range(min(len(tape), 90) - 1, -1, -1):
            if tape[i] != 0:
                t2 = list(tape)
                t2[i] = 0
                yield dict(sc, tape=t2)

    def summarize(self, stats, tier):
        return {"fs_reads_by_outcome": {k[len("fs_read:"):]: v for k, v in stats.items() if k.startswith("fs_read:")},
                "imports_by_site": {k[len("import_site:"):]: v for k, v in stats.items() if k.startswith("import_site:")},
                "graph_shapes": {k[len("shape:"):]: v for k, v in stats.items() if k.startswith("shape:")},
                "faults_fired_by_kind": {k[len("fault_kind:"):]: v for k, v in stats.items() if k.startswith("fault_kind:")},
                "logical_time": {"decisions": stats.get("decisions", 0), "events": stats.get("events_expected", 0)},
                "tainted_not_compared": {k[len("tainted:"):]: v for k, v in stats.items() if k.startswith("tainted:")}}


PROP = C14()
