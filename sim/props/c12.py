"""C12 - HashMap behaves as a map keyed by value equality.

History x schedule: a scenario is a generated operation history on 1-3 maps whose keys are built *at run time in
different ways* (equal keys are distinct objects) and are kept alive only by the map; the collector runs on the
simulator's schedule (every allocation / a PRNG tape) with reclaimed objects quarantined, so a key or value the map
fails to keep alive becomes an observable use-after-reclaim instead of a silent read of stale bytes. Oracle: an
association list compared with the language's `==`, operation by operation; enumerations as multisets.
"""
import json
import math

from ..prng import Rng, derive
from ..values import num, s, b, cls, tup, match, WILD
from ..core import process_outcome, Stats, stable_hash

INF = float("inf")
NAN = float("nan")

# name -> (yarel expression, model value)   model values: ("n", float) ("s", str) ("b", bool) ("nil",)
# ("t", [elems]) ("c", identity) ("r", identity, begin, end)
KEYS = {
    "one": ("1", ("n", 1.0)), "one_f": ("1.0", ("n", 1.0)), "one_c": ("(2 - 1)", ("n", 1.0)),
    "two": ("2", ("n", 2.0)), "zero": ("0", ("n", 0.0)), "negzero": ("(-0)", ("n", -0.0)),
    "negzero_c": ("(0 * -1)", ("n", -0.0)), "half": ("0.5", ("n", 0.5)), "inf": ("(1 / 0)", ("n", INF)),
    "ninf": ("(-1 / 0)", ("n", -INF)), "nan": ("(0 / 0)", ("n", NAN)), "big": ("123456789012", ("n", 123456789012.0)),
    "s_ab": ('"ab"', ("s", "ab")), "s_ab_c": ('("a" + "b")', ("s", "ab")), "s_ab_i": ('"${"a"}b"', ("s", "ab")),
    "s_ab_sl": ('"xab"[1..3]', ("s", "ab")), "s_empty": ('""', ("s", "")), "s_1": ('"1"', ("s", "1")),
    "s_uni": ('"hé"', ("s", "hé")),
    "true": ("true", ("b", True)), "false": ("false", ("b", False)), "nil": ("nil", ("nil",)),
    "t_a1": ('("a", 1)', ("t", [("s", "a"), ("n", 1.0)])), "t_a1_c": ('("" + "a", 2 - 1)', ("t", [("s", "a"), ("n", 1.0)])),
    "t_nest": ('((1, 2), "x")', ("t", [("t", [("n", 1.0), ("n", 2.0)]), ("s", "x")])),
    "t_nest_c": ('((1, 1 + 1), "x")', ("t", [("t", [("n", 1.0), ("n", 2.0)]), ("s", "x")])),
    "t_zero": ("(0, nil)", ("t", [("n", 0.0), ("nil",)])), "t_negzero": ("(-0, nil)", ("t", [("n", -0.0), ("nil",)])),
    "t_empty": ("()", ("t", [])), "t_nan": ("(0 / 0, 1)", ("t", [("n", NAN), ("n", 1.0)])),
    "t_bool": ("(true, false)", ("t", [("b", True), ("b", False)])),
    "c_num": ("Num", ("c", "Num")), "c_ka1": ("ka1", ("c", "KA#1")), "c_ka2": ("ka2", ("c", "KA#2")),
    "c_vec": ("Vec", ("c", "Vec")),
    "r_a": ("rga", ("r", "rga", 0, 3)), "r_b": ("rgb", ("r", "rgb", 0, 4)),
    "t_range": ("(rga, 1)", ("t", [("r", "rga", 0, 3), ("n", 1.0)])), "t_range_c": ("(rga, 2 - 1)", ("t", [("r", "rga", 0, 3), ("n", 1.0)])),
    "t_range_nest": ('(0, (rgb, "x"))', ("t", [("n", 0.0), ("t", [("r", "rgb", 0, 4), ("s", "x")])])),
    "t_class": ("(ka1, 1)", ("t", [("c", "KA#1"), ("n", 1.0)])), "t_class2": ("(ka2, 1)", ("t", [("c", "KA#2"), ("n", 1.0)])),
}
# tuples held in a variable: every use offers the *same object* as key
KEYS["tv_a1"] = ("tv1", ("t", [("s", "a"), ("n", 1.0)]))
KEYS["tv_nan"] = ("tvn", ("t", [("n", NAN), ("n", 1.0)]))
KEYS["tv_nest"] = ("tvx", ("t", [("t", [("n", 1.0), ("n", 2.0)]), ("s", "x")]))
# tuples that wrap an earlier key BY REFERENCE, one and two levels: different keys whose hashes fold to the same value
KEYS["tv_w1"] = ("tw1", ("t", [("t", [("s", "a"), ("n", 1.0)])]))
KEYS["tv_w2"] = ("tw2", ("t", [("t", [("t", [("s", "a"), ("n", 1.0)])])]))
UNHASHABLE = {
    "uv_tvec": "utv", "uv_vec": "uvec", "uv_tnest": "utn",
    "u_self": "{m}", "u_selfvec": "[{m}]", "u_selftuple": "(2, [{m}])",
    "u_vec": "[1]", "u_map": "{}", "u_inst": "KI.new()", "u_tvec": "(1, [2])", "u_fn": "|| { return 1; }",
    "u_runner": "runner", "u_runnervec": "[runner]", "u_runnertuple": "(1, runner)",
    "u_iter": "[1].iter()", "u_tnest": '((1, [2]), "x")', "u_map2": "{1: 2}", "u_fiber": "Fiber.new(|| { return 1; })",
    # one of every other kind of value that has no hash, bare and inside a tuple
    "u_riter": "(0..3).iter()", "u_triter": "(1, (0..3).iter())", "u_titer": "(1, 2).iter()", "u_siter": '"ab".iter()', "u_tsiter": '("ab".iter(), 1)',
    "u_miter": "[1].iter().map(|x| { return x; })", "u_native": "type", "u_tnative": "(type, 1)", "u_bnative": "[1].push", "u_tbnative": '(1, "ab".len)',
    "u_tfiber": "(Fiber.new(|| { return 1; }),)", "u_tfn": "(1, (2, || { return 1; }))",
}
CLASS_NAMES = {"Num": "Num", "KA#1": "KA", "KA#2": "KA", "Vec": "Vec"}

PRELUDE = """class KA { }
var ka1 = KA;
class KA { }
var ka2 = KA;
#[constructor(new)] class KI { }
var tv1 = ("a", 1); var tvn = (0 / 0, 1); var tvx = ((1, 2), "x"); var tw1 = (tv1,); var tw2 = (tw1,);
var utv = (1, [2]); var uvec = [1]; var utn = ((1, [2]), "x");
var rga = 0..3;
var rgb = 0..4;
var m0 = {}; var m1 = {}; var m2 = {};
var runner = Fiber.new(|| { return 1; });
var mv0 = [7]; var mv1 = [7]; var mv2 = [7];
"""


def yeq(a, x):
    """the language's == on model values"""
    if a[0] != x[0]:
        return False
    k = a[0]
    if k == "n":
        return a[1] == x[1]          # IEEE: 0 == -0, NaN != NaN
    if k in ("s", "b"):
        return a[1] == x[1]
    if k == "nil":
        return True
    if k == "t":
        if a is x:
            return True              # same object
        return len(a[1]) == len(x[1]) and all(yeq(p, q) for p, q in zip(a[1], x[1]))
    if k == "c":
        return a[1] == x[1]
    if k == "r":
        return a[1] == x[1]
    return False


def enc_plain(v):
    k = v[0]
    if k == "n":
        return num(v[1])
    if k == "s":
        return s(v[1])
    if k == "b":
        return b(v[1])
    if k == "nil":
        return None
    if k == "t":
        return {"t": [enc_plain(e) for e in v[1]]}
    if k == "c":
        return cls(CLASS_NAMES[v[1]])
    if k == "r":
        return {"r": [v[2], v[3]]}
    if k == "v":
        return {"v": [enc_plain(e) for e in v[1]]}
    raise ValueError(v)


NEGZERO = num(-0.0)["n"]


def canon(j):
    """canonical form for multiset comparison: -0 and 0 are the same key, NaN payloads are one NaN"""
    if isinstance(j, dict):
        if "n" in j:
            if j["n"] == NEGZERO:
                return num(0.0)
            bits = int(j["n"], 16)
            if (bits >> 52) & 0x7FF == 0x7FF and bits & ((1 << 52) - 1):
                return {"n": "nan"}
            return j
        return {k: canon(v) for k, v in j.items()}
    if isinstance(j, list):
        return [canon(x) for x in j]
    return j


def multiset(js):
    return sorted(json.dumps(canon(x), sort_keys=True) for x in js)


def val_expr(v):
    k, i = v
    if k == "vn":
        return "%d" % i
    if k == "vv":
        return "[%d]" % i
    if k == "vs":
        return '("v" + "%d")' % i
    if k == "vm":
        return "mv%d" % i          # one of three vectors that are == to each other until one of them is changed
    return '(%d, "x")' % i


def val_model(v):
    k, i = v
    if k == "vn":
        return ("n", float(i))
    if k == "vv":
        return ("v", [("n", float(i))])
    if k == "vs":
        return ("s", "v%d" % i)
    if k == "vm":
        return ("ref", i)
    return ("t", [("n", float(i)), ("s", "x")])


def gen_ir(seed):
    rng = Rng(seed)
    nmaps = rng.range(1, 3)
    # swarm: each history draws its keys from a random sub-pool, so that collisions between equal keys are frequent
    names = sorted(KEYS)
    pool = [k for k in names if rng.chance(0.35)]
    groups = [["one", "one_f", "one_c"], ["zero", "negzero", "negzero_c"], ["s_ab", "s_ab_c", "s_ab_i", "s_ab_sl"],
              ["t_a1", "t_a1_c"], ["t_nest", "t_nest_c"], ["t_zero", "t_negzero"], ["c_ka1", "c_ka2"], ["t_class", "t_class2"],
              ["nan", "t_nan", "tv_nan"], ["r_a", "r_b"], ["s_1", "one"], ["tv_a1", "t_a1"], ["tv_nest", "t_nest"], ["tv_w1", "tv_w2", "tv_a1"], ["t_range", "t_range_c", "t_range_nest", "r_a"]]
    for g in groups:
        if rng.chance(0.4):
            pool += g
    if len(pool) < 3:
        pool += ["one", "one_c", "s_ab"]
    pool = sorted(set(pool))
    unh = [k for k in sorted(UNHASHABLE) if rng.chance(0.4)]
    p_unh = rng.choice([0.0, 0.05, 0.12]) if unh else 0.0
    nops = rng.range(8, 80)
    vid = [0]

    p_vm = rng.choice([0.0, 0.15, 0.4])

    def val():
        vid[0] += 1
        if rng.chance(p_vm):
            return ["vm", rng.below(3)]
        return [rng.choice(["vn", "vn", "vv", "vs", "vt"]), vid[0]]

    def key():
        if unh and rng.chance(p_unh):
            return rng.choice(unh)
        return rng.choice(pool)

    ops = []
    for _ in range(nops):
        mi = rng.below(nmaps)
        x = rng.below(100)
        if x < 30:
            ops.append(["insert", mi, key(), val()])
        elif x < 42:
            ops.append(["remove", mi, key()])
        elif x < 57:
            ops.append(["get", mi, key()])
        elif x < 67:
            ops.append(["has", mi, key()])
        elif x < 69:
            ops.append(["clear", mi])
        elif x < 75:
            ops.append(["len", mi])
        elif x < 80:
            ops.append(["keys", mi])
        elif x < 84:
            ops.append(["values", mi])
        elif x < 89:
            ops.append(["items", mi])
        elif x < 94:
            ops.append(["lit", mi, [[key(), val()] for _ in range(rng.range(0, 6))]])
        elif x < 95 and rng.chance(0.5):
            n = rng.choice([120, 127, 128, 129, 200, 254, 255])
            ops.append(["biglit", mi, n, rng.range(0, 3)])
        elif x < 96 and rng.chance(0.5):
            # one map grown by insert far past the size a literal can have, then (sometimes) emptied again key by key
            n = rng.choice([230, 300, 520, 900, 1100])
            ops.append(["grow", mi, n])
            if rng.chance(0.5):
                ops.append(["ungrow", mi, n - rng.below(3)])
        elif x < 98 and p_vm:
            ops.append(["mut", rng.below(3), rng.below(3)])
        elif x < 99 and rng.chance(0.5):
            # a range built afresh with the bounds of a range that may be a key, after enough other ranges to turn the interpreter's
            # range cache over: whether the two are == is the language's business, but the map must agree with ==
            ops.append(["rangeconsist", mi])
        elif x < 99:
            # the caller changes the vector an enumeration handed out: later enumerations (of any map) must not see that
            ops.append(["enum_push", mi, rng.choice(["keys", "values", "items"])])
        else:
            ops.append(["churn", rng.range(1, 6)])
    # the whole operation sequence may run inside a fiber (then `runner` is the running fiber itself)
    return {"nmaps": nmaps, "ops": ops, "in_fiber": rng.chance(0.3)}


def key_expr(name, m="m0"):
    return KEYS[name][0] if name in KEYS else UNHASHABLE[name].replace("{m}", m)


def render(ir):
    out = [PRELUDE]
    e = out.append
    if ir.get("in_fiber"):
        e("runner = Fiber.new(|| {")
    for i, op in enumerate(ir["ops"]):
        k = op[0]
        m = "m%d" % op[1] if k not in ("churn", "mut") else None
        if k == "insert":
            body = 'print(("ev", %d, %s.insert(%s, %s)));' % (i, m, key_expr(op[2], m), val_expr(op[3]))
        elif k == "remove":
            body = 'print(("ev", %d, %s.remove(%s)));' % (i, m, key_expr(op[2], m))
        elif k == "get":
            body = 'print(("ev", %d, %s.get(%s)));' % (i, m, key_expr(op[2], m))
        elif k == "has":
            body = 'print(("ev", %d, %s.has_key(%s)));' % (i, m, key_expr(op[2], m))
        elif k == "clear":
            body = 'print(("ev", %d, %s.clear()));' % (i, m)
        elif k == "len":
            body = 'print(("ev", %d, %s.len()));' % (i, m)
        elif k == "keys":
            body = 'print(("ev", %d, "keys", %s.keys()));' % (i, m)
        elif k == "values":
            body = 'print(("ev", %d, "values", %s.values()));' % (i, m)
        elif k == "items":
            body = 'print(("ev", %d, "items", %s.items()));' % (i, m)
        elif k == "lit":
            lit = "{" + ", ".join("%s: %s" % (key_expr(kk, m), val_expr(vv)) for kk, vv in op[2]) + "}"
            body = '%s = %s; print(("ev", %d, "lit", %s.len()));' % (m, lit, i, m)
        elif k == "biglit":
            # entries: numbers 0..n-1 (with `dup` extra duplicates of key 0 at the end, last one wins), values = key + 0.5
            ents = ["%d: %d.5" % (j, j) for j in range(op[2] - op[3])] + ["0: %d.25" % (900 + j) for j in range(op[3])]
            body = '%s = {%s}; print(("ev", %d, "biglit", %s.len(), %s.get(0), %s.get(%d), %s.get(%d)));' % (
                m, ", ".join(ents), i, m, m, m, op[2] - op[3] - 1, m, 64)
        elif k == "churn":
            e("{ var junk = []; for ci in 0..%d { junk.push((ci, [ci], \"c\" + \"h\")); } }" % op[1])
            continue
        elif k == "mut":
            e("mv%d.push(%d);" % (op[1], i))
            continue
        elif k == "rangeconsist":
            body = ('var n%d = 0; for q in [200..201, 200..202, 200..203, 200..204, 200..205, 200..206, 200..207, 200..208, 200..209, 200..210] { n%d = n%d + 1; } '
                    'var fresh = 0..3; print(("ev", %d, "rc", (rga == fresh) == %s.has_key(fresh), (fresh == rga) == (%s.get(fresh) != nil || %s.has_key(fresh)), %s.has_key(rga)));' % (
                        i, i, i, i, m, m, m, m))
        elif k == "enum_push":
            body = 'var en = %s.%s(); en.push("junk%d"); print(("ev", %d, en.len()));' % (m, op[2], i, i)
        elif k == "grow":
            body = 'for gi in 0..%d { %s.insert(1000 + gi, gi); } print(("ev", %d, "grow", %s.len(), %s.get(1000), %s.get(%d)));' % (op[2], m, i, m, m, m, 1000 + op[2] - 1)
        elif k == "ungrow":
            body = 'var gone = 0; for gi in 0..%d { if %s.remove(1000 + gi) == gi { gone = gone + 1; } } print(("ev", %d, "ungrow", %s.len(), gone));' % (op[2], m, i, m)
        else:
            raise ValueError(k)
        e("try { %s } catch e { print((\"ev\", %d, type(e))); }" % (body, i))
    if ir.get("in_fiber"):
        e('return "ran";')
        e("});")
        e('print(("ev", "runner", runner.call(), runner.has_finished()));')
    # final state of every map
    for mi in range(ir["nmaps"]):
        e('print(("ev", "final", %d, m%d.len(), m%d.items()));' % (mi, mi, mi))
    return "\n".join(out) + "\n"


def fresh(v):
    """every evaluation of a key expression builds a new object (matters for tuple identity)"""
    if v[0] == "t":
        return ("t", [fresh(e) for e in v[1]])
    return v


def model(ir):
    maps = [[] for _ in range(3)]
    ev = []
    probes = Stats()

    def find(mp, k):
        for i, (kk, _) in enumerate(mp):
            if yeq(kk, k):
                return i
        return None

    def insert(mp, k, v):
        i = find(mp, k)
        if i is None:
            mp.append((k, v))
            return None
        old = mp[i][1]
        mp[i] = (mp[i][0], v)
        probes.inc("overwrites_of_equal_key")
        return old

    pool = [[7.0], [7.0], [7.0]]

    def enc_model(v):
        if v[0] == "ref":
            probes.inc("value_is_one_of_several_equal_vectors")
            return {"v": [num(x) for x in pool[v[1]]]}
        return enc_plain(v)

    for i, op in enumerate(ir["ops"]):
        k = op[0]
        if k == "churn":
            continue
        if k == "mut":
            pool[op[1]].append(float(i))
            continue
        mp = maps[op[1]]
        if k == "grow":
            have = {kk[1] for kk, _ in mp if kk[0] == "n"}
            for gi in range(op[2]):
                if (1000.0 + gi) in have:
                    mp[find(mp, ("n", 1000.0 + gi))] = (("n", 1000.0 + gi), ("n", float(gi)))
                else:
                    mp.append((("n", 1000.0 + gi), ("n", float(gi))))
            probes.inc("map_grown_by_insert")
            ev.append((i, "plain", [num(i), s("grow"), num(len(mp)), num(0), num(op[2] - 1)]))
            probes.max("map_size", len(mp))
            continue
        if k == "rangeconsist":
            has = find(mp, KEYS["r_a"][1]) is not None
            probes.inc("range_key_consistency_probes")
            # if rga is a key: has_key(fresh) is true exactly when rga == fresh. If it is not a key, nothing that is == to fresh can be
            # a key either unless rga == fresh is false, so the equivalence is only asserted when rga is a key
            ev.append((i, "plain", [num(i), s("rc"), b(True) if has else WILD, b(True) if has else WILD, b(has)]))
            continue
        if k == "enum_push":
            ev.append((i, "plain", [num(i), num(len(mp) + 1)]))
            continue
        if k == "ungrow":
            gone = 0
            for gi in range(op[2]):
                j = find(mp, ("n", 1000.0 + gi))
                if j is not None:
                    if yeq(mp[j][1], ("n", float(gi))):
                        gone += 1
                    del mp[j]
            ev.append((i, "plain", [num(i), s("ungrow"), num(len(mp)), num(gone)]))
            continue
        if k in ("insert", "remove", "get", "has"):
            if op[2] in UNHASHABLE:
                probes.inc("unhashable_rejected")
                ev.append((i, "plain", [num(i), cls("ValueError")]))
                continue
            key = KEYS[op[2]][1] if op[2].startswith("tv_") else fresh(KEYS[op[2]][1])
            probes.inc("keykind:" + key[0])
        if k == "insert":
            old = insert(mp, key, val_model(op[3]))
            ev.append((i, "plain", [num(i), enc_model(old) if old is not None else None]))
        elif k == "remove":
            j = find(mp, key)
            if j is None:
                ev.append((i, "plain", [num(i), None]))
            else:
                probes.inc("removes_of_present_key")
                ev.append((i, "plain", [num(i), enc_model(mp[j][1])]))
                del mp[j]
        elif k == "get":
            j = find(mp, key)
            if j is not None:
                probes.inc("hits")
            ev.append((i, "plain", [num(i), enc_model(mp[j][1]) if j is not None else None]))
        elif k == "has":
            ev.append((i, "plain", [num(i), b(find(mp, key) is not None)]))
        elif k == "clear":
            del mp[:]
            ev.append((i, "plain", [num(i), None]))
        elif k == "len":
            ev.append((i, "plain", [num(i), num(len(mp))]))
        elif k == "keys":
            ev.append((i, "multi", "keys", [enc_model(kk) for kk, _ in mp]))
        elif k == "values":
            ev.append((i, "multi", "values", [enc_model(vv) for _, vv in mp]))
        elif k == "items":
            ev.append((i, "multi", "items", [{"t": [enc_model(kk), enc_model(vv)]} for kk, vv in mp]))
        elif k == "biglit":
            n, dup = op[2], op[3]
            new = [(("n", float(j)), ("n", j + 0.5)) for j in range(n - dup)]
            if dup:
                new[0] = (("n", 0.0), ("n", 900 + dup - 1 + 0.25))
            maps[op[1]] = new
            probes.inc("big_literal")
            ev.append((i, "plain", [num(i), s("biglit"), num(len(new)), enc_model(new[0][1]), enc_model(new[n - dup - 1][1]), enc_model(new[64][1])]))
        elif k == "lit":
            if any(kk in UNHASHABLE for kk, _ in op[2]):
                probes.inc("unhashable_rejected_in_literal")
                ev.append((i, "plain", [num(i), cls("ValueError")]))
                continue
            new = []
            for kk, vv in op[2]:
                insert(new, KEYS[kk][1] if kk.startswith("tv_") else fresh(KEYS[kk][1]), val_model(vv))
            maps[op[1]] = new
            ev.append((i, "plain", [num(i), s("lit"), num(len(new))]))
        probes.max("map_size", len(maps[op[1]]))
    if ir.get("in_fiber"):
        probes.inc("histories_run_inside_a_fiber")
        ev.append((len(ir["ops"]), "plain", [s("runner"), s("ran"), b(True)]))
    finals = []
    for mi in range(ir["nmaps"]):
        finals.append((len(maps[mi]), [{"t": [enc_model(kk), enc_model(vv)]} for kk, vv in maps[mi]]))
    return {"events": ev, "finals": finals, "probes": probes}


def compare(exp, hist):
    po = process_outcome(hist)
    if po:
        return {"class": po[0], "msg": po[1]}
    prog = hist["programs"][0]
    act = prog["events"]
    out = prog["outcome"]
    n = len(exp["events"])
    for idx, e in enumerate(exp["events"]):
        if idx >= len(act):
            return {"class": "map", "msg": "history ends after %d events, expected %d (outcome %s)" % (len(act), n, json.dumps(out)[:200])}
        a = act[idx]
        if e[1] == "plain":
            if not match(e[2], a):
                return {"class": "map", "msg": "op %d: expected %s got %s" % (e[0], json.dumps(e[2]), json.dumps(a))}
        else:
            if len(a) != 3 or a[0] != num(e[0]) or a[1] != s(e[2]) or not isinstance(a[2], dict) or "v" not in a[2]:
                return {"class": "map", "msg": "op %d: expected a %s enumeration, got %s" % (e[0], e[2], json.dumps(a)[:300])}
            if multiset(a[2]["v"]) != multiset(e[3]):
                return {"class": "map", "msg": "op %d: %s() enumerates %s, abstract map has %s" % (
                    e[0], e[2], json.dumps(canon(a[2]["v"]))[:400], json.dumps(canon(e[3]))[:400])}
    for mi, (ln, items) in enumerate(exp["finals"]):
        idx = n + mi
        if idx >= len(act):
            return {"class": "map", "msg": "final state of map %d missing (outcome %s)" % (mi, json.dumps(out)[:200])}
        a = act[idx]
        if len(a) != 4 or a[2] != num(ln) or multiset(a[3].get("v", [])) != multiset(items):
            return {"class": "map", "msg": "final state of map %d: got len %s items %s, abstract map has len %d items %s" % (
                mi, json.dumps(a[2]), json.dumps(canon(a[3]))[:400], ln, json.dumps(canon(items))[:400])}
    if not out.get("ok"):
        return {"class": "outcome", "msg": "expected normal completion, got %s" % json.dumps(out)[:300]}
    return None


class C12:
    ID = "C12"
    LEVEL = "exploration"
    TIMEOUT = 30.0
    RULE = ("case = generated operation history (8-80 ops: literal construction with duplicate/unhashable keys, insert, remove, get, "
            "has_key, clear, len, keys, values, items) on 1-3 maps over a per-history sub-pool of a 47-key catalogue in which equal "
            "keys are built differently (1, 1.0, 2-1; 0, -0, 0*-1; \"ab\" literal / concatenated / interpolated / sliced; equal tuples "
            "and nested tuples built separately; tuples of classes; two distinct classes with one name; ranges; inf, NaN) plus 15 kinds of "
            "unhashable keys (fresh, variable-held, and the map itself / containers of it); literals with 120-255 entries; keys and values are referenced only by the map; each history runs under collect-at-every-allocation and "
            "under a PRNG collection tape (both with quarantine: premature reclaim = use-after-reclaim event) and in the plain release "
            "build. non-trivial = the history has >= 1 overwrite of an equal key, hit or removal; distinct = distinct history hash Every history also runs on the plain checked build (real frees: address reuse).")
    COMPONENTS = {"real": ["hash_map_* natives, BuildHashMap", "Value::hash / Value::eq / tuple hashing", "collector (mark/sweep of maps, keys, values)", "compiler, VM"],
                  "stub": ["collection schedule and quarantine (verif_hooks)", "typed event channel (printer seam)"]}
    ASSUMPTIONS = ["which of two == keys a map keeps on overwrite is not stated: enumerations are compared as multisets modulo == (0 and -0 are one key)",
                   "range keys are only ever looked up through the same object held in a variable (range identity across evaluations is not asserted)"]

    def configs(self, tier):
        return ["checked+hooks", "release", "checked"]

    def plan(self, tier):
        return 5000 if tier == "quick" else 300000

    def wall_cap(self, tier):
        return 240 if tier == "quick" else 3300

    def generate(self, seed, idx, tier):
        cseed = derive(seed, "C12", idx)
        ir = gen_ir(cseed)
        rng = Rng(derive(cseed, "gc"))
        rate = rng.choice([2, 8, 64])
        nbytes = 1024
        tape = bytearray(nbytes)
        for i in range(nbytes * 8):
            if rng.below(rate) == 0:
                tape[i // 8] |= 1 << (i % 8)
        return {"ir": ir, "gc_tape": tape.hex(), "gc_rate": rate}

    def check(self, sc, ctx):
        stats = Stats()
        ir = sc["ir"]
        try:
            src = render(ir)
            exp = model(ir)
        except (ValueError, KeyError, IndexError) as e:
            return {"stats": stats, "nontrivial": False, "invalid": str(e)}
        sc = dict(sc, programs=[{"kind": "snippet", "source": src}], tape=[], faults={})
        stats.merge(exp["probes"])
        stats.inc("histories")
        stats.inc("operations", len(ir["ops"]))
        p = exp["probes"]
        nontrivial = (p.get("overwrites_of_equal_key", 0) + p.get("hits", 0) + p.get("removes_of_present_key", 0)) > 0
        res = {"stats": stats, "nontrivial": nontrivial, "key": stable_hash(ir), "scenario": sc,
               "sample": {"source": src, "expected_first_events": [e_[2] if e_[1] == "plain" else [e_[2], e_[3]] for e_ in exp["events"][:12]]}}
        runs = [("checked+hooks", {"gc": {"mode": "always", "quarantine": True}}, "always"),
                ("checked+hooks", {"gc": {"mode": "tape", "tape": sc.get("gc_tape", ""), "quarantine": True}}, "tape"),
                ("release", None, "release-native"),
                # collects at every allocation and really frees: addresses are reused (a quarantine never reuses one)
                ("checked", None, "checked-real-free")]
        for config, cfg, label in runs:
            h = ctx.run(config, dict(sc, config=cfg) if cfg else sc)
            stats.inc("executions:" + label)
            v = compare(exp, h)
            gc = h.get("gc") or {}
            if cfg:
                stats.inc("gc_collections:" + label, gc.get("collections", 0))
                stats.inc("gc_reclaimed:" + label, gc.get("quarantined", 0))
                stats.inc("allocations:" + label, gc.get("allocs", 0))
                if gc.get("uar_count", 0) > 0:
                    v = {"class": "use-after-reclaim", "msg": "%d use(s) of reclaimed objects, first: %s%s" % (
                        gc["uar_count"], json.dumps(gc.get("uar", [])[:2]), ("; also: " + v["msg"]) if v else "")}
            if v:
                v["config"] = label
                v["msg"] = "[%s] %s" % (label, v["msg"])
                res["violation"] = v
                return res
        return res

    def shrink(self, sc):
        import copy
        ir = sc["ir"]
        ops = ir["ops"]
        n = len(ops)
        # halves, then single ops
        if n > 4:
            for lo, hi in ((0, n // 2), (n // 2, n)):
                d = copy.deepcopy(ir)
                del d["ops"][lo:hi]
                yield dict(sc, ir=d)
        for i in range(n - 1, -1, -1):
            d = copy.deepcopy(ir)
            del d["ops"][i]
            yield dict(sc, ir=d)
        for i, op in enumerate(ops):
            if op[0] == "lit" and len(op[2]) > 0:
                for j in range(len(op[2])):
                    d = copy.deepcopy(ir)
                    del d["ops"][i][2][j]
                    yield dict(sc, ir=d)
            if op[0] == "insert" and op[3][0] != "vn":
                d = copy.deepcopy(ir)
                d["ops"][i][3][0] = "vn"
                yield dict(sc, ir=d)

    def summarize(self, stats, tier):
        return {"key_kinds_used": {k[len("keykind:"):]: v for k, v in stats.items() if k.startswith("keykind:")},
                "collections": {k[len("gc_collections:"):]: v for k, v in stats.items() if k.startswith("gc_collections:")},
                "objects_reclaimed": {k[len("gc_reclaimed:"):]: v for k, v in stats.items() if k.startswith("gc_reclaimed:")},
                "logical_time": {"operations": stats.get("operations", 0), "allocations_always": stats.get("allocations:always", 0)}}


PROP = C12()
