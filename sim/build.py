"""Builds the runner binaries from /repo's current working tree (cargo, offline, incremental)."""
import fcntl
import os
import shutil
import subprocess
import sys

ROOT = os.path.dirname(os.path.dirname(os.path.abspath(__file__)))
# VERIF_RUNNER_DIR: a scratch copy of runner/ whose yarel dependency points at a scratch worktree (used only by the
# mutant-matrix tool so that /repo itself is never modified while other checks run)
RUNNER = os.environ.get("VERIF_RUNNER_DIR") or os.path.join(ROOT, "runner")
BIN = os.path.join(RUNNER, "bin")
TARGET = os.path.join(RUNNER, "target")


class BuildError(Exception):
    pass


def parse(config):
    config = config.split("@")[0]       # "<build>@memcheck": the same binary, run under valgrind (see runner.py)
    parts = config.split("+")
    profile = parts[0]
    feats = parts[1:]
    return profile, feats


def bin_path(config):
    return os.path.join(BIN, config.split("@")[0].replace("+", "_"))


def ensure(configs, quiet=True):
    """Build every config (sequentially, under a file lock) and copy the binaries to runner/bin."""
    os.makedirs(BIN, exist_ok=True)
    os.makedirs(TARGET, exist_ok=True)
    lock = open(os.path.join(RUNNER, ".build.lock"), "w")
    fcntl.flock(lock, fcntl.LOCK_EX)
    try:
        for config in configs:
            profile, feats = parse(config)
            cmd = ["cargo", "build", "--offline", "--target-dir", TARGET]
            if profile == "dev":
                outdir = "debug"
            else:
                cmd += ["--profile", profile]
                outdir = profile
            if feats:
                cmd += ["--features", ",".join(feats)]
            env = dict(os.environ)
            env["CARGO_NET_OFFLINE"] = "true"
            env.pop("RUSTFLAGS", None)
            p = subprocess.run(cmd, cwd=RUNNER, env=env, stdout=subprocess.PIPE, stderr=subprocess.STDOUT, text=True)
            if p.returncode != 0:
                raise BuildError("cargo build failed for %s:\n%s" % (config, p.stdout[-4000:]))
            src = os.path.join(TARGET, outdir, "runner")
            dst = bin_path(config)
            tmp = dst + ".tmp.%d" % os.getpid()
            shutil.copy2(src, tmp)
            os.replace(tmp, dst)
            if not quiet:
                sys.stderr.write("built %s\n" % config)
    finally:
        fcntl.flock(lock, fcntl.LOCK_UN)
        lock.close()


if __name__ == "__main__":
    ensure(sys.argv[1:], quiet=False)
