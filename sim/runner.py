"""Long-lived runner processes: one scenario in, one history out, with crash/hang detection."""
import json
import os
import re
import select
import shutil
import signal
import subprocess
import sys
import tempfile

from . import build


MEMCHECK_STATUS = 97


class Runner:
    def __init__(self, config):
        self.config = config
        self.path = build.bin_path(config)
        self.proc = None
        self.buf = b""

    def start(self):
        cmd = [self.path]
        self.vglog = None
        if self.config.endswith("@memcheck") and shutil.which("valgrind") is None:
            # (pre-installed in this sandbox; without it the slice still runs the build, just without the memory monitor)
            sys.stderr.write("WARNING: valgrind not found: %s runs without memcheck\n" % self.config)
        elif self.config.endswith("@memcheck"):
            # the same binary under valgrind's memcheck: the process ends at the first invalid read/write/free (status 97).
            # Catches what the use-after-reclaim hook cannot see: accesses through raw pointers and borrow guards.
            fd, self.vglog = tempfile.mkstemp(prefix="verif-vg-", suffix=".log")
            os.close(fd)
            cmd = ["valgrind", "-q", "--error-exitcode=%d" % MEMCHECK_STATUS, "--exit-on-first-error=yes",
                   "--undef-value-errors=no", "--log-file=" + self.vglog, self.path]
        self.proc = subprocess.Popen(cmd, stdin=subprocess.PIPE, stdout=subprocess.PIPE,
                                     stderr=subprocess.DEVNULL, bufsize=0)
        self.buf = b""

    def stop(self):
        if self.proc is not None:
            if os.environ.get("VERIF_GRACEFUL_STOP") and self.proc.poll() is None:
                # coverage measurement (tools/coverage.sh): let the process end by itself so that it writes its profile
                try:
                    self.proc.stdin.close()
                    self.proc.wait(timeout=5)
                except Exception:
                    pass
            try:
                self.proc.kill()
            except Exception:
                pass
            try:
                self.proc.wait(timeout=5)
            except Exception:
                pass
            for f in (self.proc.stdin, self.proc.stdout):
                try:
                    f.close()
                except Exception:
                    pass
            self.proc = None
            if getattr(self, "vglog", None):
                try:
                    os.remove(self.vglog)
                except OSError:
                    pass
                self.vglog = None

    def run(self, scenario, timeout=30.0):
        """Returns the history dict, or {"crash": desc} / {"hang": True}."""
        if self.proc is None or self.proc.poll() is not None:
            self.stop()
            self.start()
        payload = {k: scenario[k] for k in ("run", "programs", "fs", "tape", "faults", "config") if k in scenario}
        data = (json.dumps(payload, separators=(",", ":")) + "\n").encode()
        try:
            view = memoryview(data)
            while len(view):
                n = os.write(self.proc.stdin.fileno(), view)
                view = view[n:]
        except (BrokenPipeError, OSError):
            return self._crashed()
        fd = self.proc.stdout.fileno()
        import time
        deadline = time.monotonic() + timeout
        while True:
            nl = self.buf.find(b"\n")
            if nl >= 0:
                line = self.buf[:nl]
                self.buf = self.buf[nl + 1:]
                try:
                    return json.loads(line)
                except ValueError:
                    return {"harness_error": "unparseable runner output: %r" % line[:200]}
            remaining = deadline - time.monotonic()
            if remaining <= 0:
                self.stop()
                return {"hang": True}
            r, _, _ = select.select([fd], [], [], remaining)
            if not r:
                continue
            chunk = os.read(fd, 1 << 16)
            if not chunk:
                return self._crashed()
            self.buf += chunk

    def _crashed(self):
        rc = None
        try:
            rc = self.proc.wait(timeout=5)
        except Exception:
            pass
        report = ""
        if rc == MEMCHECK_STATUS and getattr(self, "vglog", None):
            try:
                lines = [re.sub(r"^==\d+== ?", "", l.rstrip()) for l in open(self.vglog, errors="replace")]
                body = [l.strip() for l in lines if l.strip() and not l.startswith("Thread ")]
                keep = body[:1] + [l for l in body if "yarel::" in l][:4] + [l for l in body if l.startswith("Address ")][:1]
                report = " | ".join(keep)
            except OSError:
                pass
        self.stop()
        if rc == MEMCHECK_STATUS:
            return {"crash": "memcheck: " + (report or "invalid memory access")}
        if rc is not None and rc < 0:
            try:
                name = signal.Signals(-rc).name
            except Exception:
                name = str(-rc)
            return {"crash": "runner killed by %s" % name}
        return {"crash": "runner exited with status %r" % rc}
