// Scenario runner: the only Rust piece of the simulator.
//
// Reads one scenario (JSON object) per line on stdin, executes it against the real yarel
// library on a fresh OS thread (yarel's heap is thread-local, so every scenario starts from a
// fresh heap), and writes one history (JSON object) per line on stdout.
//
// Seams used (all public yarel API):
//   * Vm::set_printer        -> typed event channel / decision tape / fault point
//   * Vm::set_module_loader  -> simulated file system with faults
//   * vm::interpret / Vm::reset on one Vm -> session histories
//   * (feature "hooks") yarel::memory::verif -> collection schedule, quarantine,
//     use-after-reclaim monitor, allocation/collection event stream
//
// Everything nondeterministic is decided by the scenario file (written by the Python
// simulator from one PRNG), so one scenario file is one exactly repeatable execution.

use std::cell::RefCell;
use std::collections::HashMap;
use std::io::{self, BufRead, Write};
use std::panic;

use serde_json::{json, Map, Value as J};
use yarel::error::{Error, ErrorKind};
use yarel::value::Value;
use yarel::vm::{self, Vm};

#[derive(Default)]
struct Sim {
    tape: Vec<i64>,
    tape_pos: usize,
    tape_exhausted: bool,
    faults: HashMap<String, HashMap<u64, String>>,
    occ: HashMap<String, u64>,
    fired: Vec<J>,
    events: Vec<J>,
    max_events: usize,
    events_dropped: usize,
    fs: HashMap<String, (String, Vec<String>)>,
    fs_reads: Vec<J>,
    fs_count: HashMap<String, usize>,
    display: bool,
    // C16 monitor (fed by the hook's event stream)
    mon: Monitor,
}

#[derive(Default)]
struct Monitor {
    on: bool,
    shadow_bytes: usize,
    last_live: Option<usize>,
    max_bytes: usize,
    max_over: i64,
    allocs: usize,
    collections: usize,
    bound_violations: Vec<String>,
    drift_violations: Vec<String>,
    n_bound: usize,
    n_drift: usize,
    freed_objects: usize,
    alloc_bytes_total: usize,
    by_type: HashMap<&'static str, (usize, usize)>,
    live_after: Vec<usize>,
}

thread_local!(static SIM: RefCell<Sim> = RefCell::new(Sim::default()));

const HEAP_INIT_BYTES_MAX: usize = 65536;
const HEAP_GROWTH_FACTOR: usize = 2;

fn kind_of(name: &str) -> ErrorKind {
    match name {
        "AttributeError" => ErrorKind::AttributeError,
        "CompileError" => ErrorKind::CompileError,
        "ImportError" => ErrorKind::ImportError,
        "IndexError" => ErrorKind::IndexError,
        "NameError" => ErrorKind::NameError,
        "RuntimeError" => ErrorKind::RuntimeError,
        "TypeError" => ErrorKind::TypeError,
        "ValueError" => ErrorKind::ValueError,
        _ => ErrorKind::RuntimeError,
    }
}

fn enc(v: Value, depth: usize) -> J {
    if depth > 8 {
        return json!({"o": "deep"});
    }
    match v {
        Value::Number(n) => json!({"n": format!("{:016x}", n.to_bits())}),
        Value::ObjString(s) => json!({"s": s.as_str()}),
        Value::Boolean(b) => json!({ "b": b }),
        Value::None => J::Null,
        Value::ObjTuple(t) => {
            json!({"t": t.elements.iter().map(|e| enc(*e, depth + 1)).collect::<Vec<_>>()})
        }
        Value::ObjVec(t) => match t.try_borrow() {
            Ok(b) => json!({"v": b.elements.iter().map(|e| enc(*e, depth + 1)).collect::<Vec<_>>()}),
            Err(_) => json!({"o": "vec(borrowed)"}),
        },
        Value::ObjHashMap(m) => match m.try_borrow() {
            Ok(b) => {
                let mut pairs: Vec<(String, J)> = b
                    .elements
                    .iter()
                    .map(|(k, v)| {
                        let p = json!([enc(*k, depth + 1), enc(*v, depth + 1)]);
                        (p.to_string(), p)
                    })
                    .collect();
                pairs.sort_by(|a, b| a.0.cmp(&b.0));
                json!({"m": pairs.into_iter().map(|p| p.1).collect::<Vec<_>>()})
            }
            Err(_) => json!({"o": "map(borrowed)"}),
        },
        Value::ObjInstance(i) => match i.try_borrow() {
            Ok(b) => json!({"o": format!("instance:{}", b.class.name.as_str())}),
            Err(_) => json!({"o": "instance(borrowed)"}),
        },
        Value::ObjClass(c) => json!({"o": format!("class:{}", c.name.as_str())}),
        Value::ObjModule(m) => match m.try_borrow() {
            Ok(b) => json!({"o": format!("{}", *b)}),
            Err(_) => json!({"o": "module(borrowed)"}),
        },
        Value::ObjFiber(_) => json!({"o": "fiber"}),
        Value::ObjClosure(c) => json!({"o": format!("fn:{}", c.function.name.as_str())}),
        Value::ObjNative(_) => json!({"o": "native"}),
        Value::ObjBoundMethod(_) => json!({"o": "method"}),
        Value::ObjBoundNative(_) => json!({"o": "nativemethod"}),
        Value::ObjRange(r) => json!({"r": [r.begin, r.end]}),
        Value::ObjFunction(_) => json!({"o": "function"}),
        Value::ObjStringIter(_) => json!({"o": "stringiter"}),
        Value::ObjTupleIter(_) => json!({"o": "tupleiter"}),
        Value::ObjVecIter(_) => json!({"o": "veciter"}),
        Value::ObjRangeIter(_) => json!({"o": "rangeiter"}),
    }
}

fn push_event(e: J) {
    SIM.with(|s| {
        let mut s = s.borrow_mut();
        if s.events.len() < s.max_events {
            s.events.push(e);
        } else {
            s.events_dropped += 1;
        }
    });
}

#[cfg(feature = "hooks")]
fn heap_stats() -> J {
    let mut m = Map::new();
    for (name, count, bytes, rooted) in yarel::memory::verif::stats() {
        m.insert(short_type(name), json!([count, bytes, rooted]));
    }
    J::Object(m)
}

#[cfg(not(feature = "hooks"))]
fn heap_stats() -> J {
    J::Object(Map::new())
}

#[allow(dead_code)]
fn short_type(name: &str) -> String {
    // "core::cell::RefCell<yarel::object::ObjVec>" -> "RefCell<ObjVec>"
    let mut out = String::new();
    let mut word = String::new();
    for c in name.chars() {
        if c.is_alphanumeric() || c == '_' || c == ':' {
            word.push(c);
        } else {
            out.push_str(word.rsplit("::").next().unwrap_or(""));
            word.clear();
            out.push(c);
        }
    }
    out.push_str(word.rsplit("::").next().unwrap_or(""));
    out
}

fn printer(vm: &mut Vm, n: usize) -> Result<Value, Error> {
    if n != 1 {
        return Err(Error::with_message(
            ErrorKind::TypeError,
            &format!("Expected 1 parameter but found {}.", n),
        ));
    }
    let v = vm.native_arg(1);
    if let Value::ObjTuple(t) = v {
        if let Some(Value::ObjString(tag)) = t.elements.get(0).copied() {
            match tag.as_str() {
                "pick" => {
                    let m = t
                        .elements
                        .get(1)
                        .and_then(|x| x.try_as_number())
                        .unwrap_or(1.0) as i64;
                    let r = SIM.with(|s| {
                        let mut s = s.borrow_mut();
                        if s.tape_pos < s.tape.len() {
                            let x = s.tape[s.tape_pos];
                            s.tape_pos += 1;
                            x
                        } else {
                            s.tape_exhausted = true;
                            0
                        }
                    });
                    return Ok(Value::Number((if m > 0 { r.rem_euclid(m) } else { 0 }) as f64));
                }
                "chk" => {
                    let site = match t.elements.get(1).copied() {
                        Some(Value::ObjString(s)) => s.as_str().to_string(),
                        Some(Value::Number(n)) => format!("{}", n),
                        _ => "?".to_string(),
                    };
                    let fail = SIM.with(|s| {
                        let mut s = s.borrow_mut();
                        let o = {
                            let e = s.occ.entry(site.clone()).or_insert(0);
                            *e += 1;
                            *e
                        };
                        let k = s.faults.get(&site).and_then(|m| m.get(&o)).cloned();
                        if let Some(k) = &k {
                            s.fired.push(json!([site, o, k]));
                        }
                        k
                    });
                    if let Some(k) = fail {
                        if let Some(op) = k.strip_prefix("op:") {
                            // the program itself performs failing built-in operation number `op`
                            return Ok(Value::Number(op.parse::<f64>().unwrap_or(0.0)));
                        }
                        return Err(Error::with_message(
                            kind_of(&k),
                            &format!("injected {} at {}", k, site),
                        ));
                    }
                    return Ok(Value::None);
                }
                "ev" => {
                    let e: Vec<J> = t.elements[1..].iter().map(|x| enc(*x, 0)).collect();
                    push_event(J::Array(e));
                    return Ok(Value::None);
                }
                "gc" => {
                    #[cfg(feature = "hooks")]
                    yarel::memory::verif::collect_now();
                    return Ok(Value::None);
                }
                "stats" => {
                    let label = t.elements.get(1).map(|x| enc(*x, 0)).unwrap_or(J::Null);
                    push_event(json!([{"stats": heap_stats()}, label]));
                    return Ok(Value::None);
                }
                _ => {}
            }
        }
    }
    if SIM.with(|s| s.borrow().display) {
        // plain `print(x)` of the repository's own scripts: the text a user would see
        push_event(json!(["print", format!("{}", v)]));
    } else {
        push_event(json!(["print", enc(v, 0)]));
    }
    Ok(Value::None)
}

fn import_error(path: &str, reason: &str) -> Error {
    Error::with_message(
        ErrorKind::ImportError,
        &format!("Unable to read file '{}.yl' ({}).", path, reason),
    )
}

fn loader(path: &str) -> Result<String, Error> {
    SIM.with(|s| {
        let mut s = s.borrow_mut();
        let idx = {
            let c = s.fs_count.entry(path.to_string()).or_insert(0);
            let i = *c;
            *c += 1;
            i
        };
        let entry = s.fs.get(path).cloned();
        let (res, what) = match entry {
            None => (
                Err(import_error(path, "file not found")),
                "notfound".to_string(),
            ),
            Some((src, reads)) => {
                let mode = reads.get(idx).cloned().unwrap_or_else(|| "ok".to_string());
                if mode == "ok" {
                    (Ok(src), mode)
                } else if mode == "notfound" {
                    (Err(import_error(path, "file not found")), mode)
                } else if let Some(reason) = mode.strip_prefix("ioerr:") {
                    (Err(import_error(path, reason)), mode.clone())
                } else if let Some(alt) = mode.strip_prefix("src:") {
                    (Ok(alt.to_string()), "src".to_string())
                } else {
                    (Ok(src), mode)
                }
            }
        };
        s.fs_reads.push(json!([path, what]));
        res
    })
}

#[cfg(feature = "hooks")]
fn observer(ev: &yarel::memory::verif::Event) {
    use yarel::memory::verif::Event;
    SIM.with(|s| {
        let mut s = match s.try_borrow_mut() {
            Ok(s) => s,
            Err(_) => return,
        };
        let m = &mut s.mon;
        if !m.on {
            return;
        }
        match ev {
            Event::Alloc {
                index,
                type_name,
                size,
                bytes_allocated,
                threshold: _,
            } => {
                m.allocs += 1;
                m.shadow_bytes += size;
                m.alloc_bytes_total += size;
                let e = m.by_type.entry(type_name).or_insert((0, 0));
                e.0 += 1;
                e.1 += size;
                if m.shadow_bytes > m.max_bytes {
                    m.max_bytes = m.shadow_bytes;
                }
                let budget = std::cmp::max(
                    HEAP_INIT_BYTES_MAX,
                    m.last_live.unwrap_or(0) * HEAP_GROWTH_FACTOR,
                );
                let over = m.shadow_bytes as i64 - (budget + size) as i64;
                if over > m.max_over || m.allocs == 1 {
                    m.max_over = over;
                }
                if m.shadow_bytes > budget + size {
                    m.n_bound += 1;
                    if m.bound_violations.len() < 4 {
                        m.bound_violations.push(format!(
                            "alloc#{}: heap {} bytes > budget {} (max(64KiB, 2 x {} live after previous collection)) + this allocation {}",
                            index, m.shadow_bytes, budget, m.last_live.unwrap_or(0), size
                        ));
                    }
                }
                if *bytes_allocated != m.shadow_bytes {
                    m.n_drift += 1;
                    if m.drift_violations.len() < 4 {
                        m.drift_violations.push(format!(
                            "alloc#{}: accounted {} bytes, objects sum to {}",
                            index, bytes_allocated, m.shadow_bytes
                        ));
                    }
                }
            }
            Event::Collect {
                index,
                live_bytes,
                live_objects: _,
                rooted_objects: _,
                freed_objects,
                bytes_freed: _,
                bytes_allocated,
                threshold: _,
            } => {
                m.collections += 1;
                m.freed_objects += freed_objects;
                m.shadow_bytes = *live_bytes;
                m.last_live = Some(*live_bytes);
                if m.live_after.len() < 4096 {
                    m.live_after.push(*live_bytes);
                }
                if *bytes_allocated != *live_bytes {
                    m.n_drift += 1;
                    if m.drift_violations.len() < 4 {
                        m.drift_violations.push(format!(
                            "collection before alloc#{}: accounted {} bytes, surviving objects sum to {}",
                            index, bytes_allocated, live_bytes
                        ));
                    }
                }
            }
        }
    });
}

#[cfg(feature = "hooks")]
fn configure_gc(sc: &J) {
    use yarel::memory::verif::{self, Pacing};
    let gc = sc.get("config").and_then(|c| c.get("gc"));
    let mode = gc
        .and_then(|g| g.get("mode"))
        .and_then(|m| m.as_str())
        .unwrap_or("native");
    let quarantine = gc
        .and_then(|g| g.get("quarantine"))
        .and_then(|q| q.as_bool())
        .unwrap_or(false);
    let monitor = gc
        .and_then(|g| g.get("monitor"))
        .and_then(|q| q.as_bool())
        .unwrap_or(false);
    let pacing = match mode {
        "never" => Pacing::Never,
        "always" => Pacing::Always,
        "tape" => {
            let hex = gc
                .and_then(|g| g.get("tape"))
                .and_then(|t| t.as_str())
                .unwrap_or("");
            let bytes: Vec<u8> = (0..hex.len() / 2)
                .map(|i| u8::from_str_radix(&hex[2 * i..2 * i + 2], 16).unwrap_or(0))
                .collect();
            Pacing::Tape(bytes)
        }
        _ => Pacing::Native,
    };
    let initial: usize = verif::stats().iter().map(|t| t.2).sum();
    SIM.with(|s| {
        let mut s = s.borrow_mut();
        s.mon.on = monitor;
        s.mon.shadow_bytes = initial;
    });
    verif::configure(pacing, quarantine, if monitor { Some(observer) } else { None });
}

#[cfg(not(feature = "hooks"))]
fn configure_gc(_sc: &J) {}

#[cfg(feature = "hooks")]
fn gc_report() -> J {
    use yarel::memory::verif;
    let (n, list) = verif::uses_after_reclaim();
    let uar: Vec<J> = list
        .iter()
        .map(|u| json!({"type": short_type(u.type_name), "allocated_at": u.allocated_at, "used_at": u.used_at, "what": u.what}))
        .collect();
    let mon = SIM.with(|s| {
        let s = s.borrow();
        let m = &s.mon;
        if !m.on {
            return J::Null;
        }
        let mut by_type = Map::new();
        for (k, v) in &m.by_type {
            by_type.insert(short_type(k), json!([v.0, v.1]));
        }
        json!({
            "allocs": m.allocs, "collections": m.collections, "max_bytes": m.max_bytes,
            "max_over": m.max_over, "n_bound": m.n_bound, "n_drift": m.n_drift,
            "bound_violations": m.bound_violations, "drift_violations": m.drift_violations,
            "freed_objects": m.freed_objects, "alloc_bytes_total": m.alloc_bytes_total,
            "alloc_by_type": by_type, "live_after_tail": m.live_after.iter().rev().take(8).collect::<Vec<_>>(),
            "last_live": m.last_live,
        })
    });
    json!({
        "allocs": verif::allocations(),
        "collections": verif::collections(),
        "uar_count": n,
        "uar": uar,
        "quarantined": verif::quarantined(),
        "monitor": mon,
    })
}

#[cfg(not(feature = "hooks"))]
fn gc_report() -> J {
    J::Null
}

#[cfg(feature = "hooks")]
fn gc_teardown() {
    use yarel::memory::verif;
    verif::configure(verif::Pacing::Never, false, None);
    verif::purge();
}

#[cfg(not(feature = "hooks"))]
fn gc_teardown() {}

fn run_scenario(sc: &J) -> J {
    SIM.with(|s| {
        let mut sim = Sim::default();
        sim.max_events = sc
            .get("config")
            .and_then(|c| c.get("max_events"))
            .and_then(|m| m.as_u64())
            .unwrap_or(20000) as usize;
        sim.display = sc
            .get("config")
            .and_then(|c| c.get("display"))
            .and_then(|m| m.as_bool())
            .unwrap_or(false);
        if let Some(t) = sc.get("tape").and_then(|t| t.as_array()) {
            sim.tape = t.iter().map(|x| x.as_i64().unwrap_or(0)).collect();
        }
        if let Some(f) = sc.get("faults").and_then(|f| f.as_object()) {
            for (site, m) in f {
                let mut mm = HashMap::new();
                if let Some(m) = m.as_object() {
                    for (o, k) in m {
                        mm.insert(
                            o.parse::<u64>().unwrap_or(0),
                            k.as_str().unwrap_or("RuntimeError").to_string(),
                        );
                    }
                }
                sim.faults.insert(site.clone(), mm);
            }
        }
        if let Some(f) = sc.get("fs").and_then(|f| f.as_object()) {
            for (p, e) in f {
                let src = e
                    .get("source")
                    .and_then(|x| x.as_str())
                    .unwrap_or("")
                    .to_string();
                let reads = e
                    .get("reads")
                    .and_then(|x| x.as_array())
                    .map(|a| {
                        a.iter()
                            .map(|x| x.as_str().unwrap_or("ok").to_string())
                            .collect()
                    })
                    .unwrap_or_default();
                sim.fs.insert(p.clone(), (src, reads));
            }
        }
        *s.borrow_mut() = sim;
    });
    let programs: Vec<J> = sc
        .get("programs")
        .and_then(|p| p.as_array())
        .cloned()
        .unwrap_or_default();
    let mut outs = Vec::new();
    // The interpreter's own start-up (core library) runs under never-collect so that the
    // allocation index of the scenario's first allocation does not depend on it; the
    // schedule is armed afterwards.
    #[cfg(feature = "hooks")]
    yarel::memory::verif::configure(yarel::memory::verif::Pacing::Never, false, None);
    // config.default_loader: the interpreter keeps its own module loader (the real file system): used only with paths
    // that do not exist, to see how the default loader reports a missing file
    let default_loader = sc
        .get("config")
        .and_then(|c| c.get("default_loader"))
        .and_then(|m| m.as_bool())
        .unwrap_or(false);
    let built = panic::catch_unwind(move || {
        let mut vm = Vm::with_built_ins();
        vm.set_printer(printer);
        if !default_loader {
            vm.set_module_loader(loader);
        }
        vm
    });
    let mut vm = match built {
        Ok(vm) => vm,
        Err(_) => {
            outs.push(json!({"events": [], "outcome": {"panic": "interpreter construction panicked"}}));
            return finish(sc, outs);
        }
    };
    configure_gc(sc);
    let mut compiled: Vec<yarel::memory::Root<yarel::object::ObjFunction>> = Vec::new();
    let mut held: Vec<yarel::memory::Root<yarel::object::ObjClosure>> = Vec::new();
    for p in programs {
        let kind = p.get("kind").and_then(|k| k.as_str()).unwrap_or("snippet");
        if kind == "newvm" {
            // the host drops its interpreter and creates another one ON THE SAME THREAD (the heap is thread-local and shared)
            let r = panic::catch_unwind(panic::AssertUnwindSafe(|| {
                let mut fresh = Vm::with_built_ins();
                fresh.set_printer(printer);
                fresh.set_module_loader(loader);
                fresh
            }));
            let events = SIM.with(|s| std::mem::take(&mut s.borrow_mut().events));
            match r {
                Ok(fresh) => {
                    let old = std::mem::replace(&mut vm, fresh);
                    let _ = panic::catch_unwind(panic::AssertUnwindSafe(move || drop(old)));
                    outs.push(json!({"events": events, "outcome": {"newvm": true}}));
                }
                Err(p) => {
                    outs.push(json!({"events": events, "outcome": {"panic": panic_msg(p)}}));
                    std::mem::forget(vm);
                    return finish(sc, outs);
                }
            }
            continue;
        }
        if kind == "reset" {
            let r = panic::catch_unwind(panic::AssertUnwindSafe(|| vm.reset()));
            let events = SIM.with(|s| std::mem::take(&mut s.borrow_mut().events));
            match r {
                Ok(_) => outs.push(json!({"events": events, "outcome": {"reset": true}})),
                Err(p) => {
                    outs.push(json!({"events": events, "outcome": {"panic": panic_msg(p)}}));
                    std::mem::forget(vm);
                    return finish(sc, outs);
                }
            }
            continue;
        }
        if kind == "defnative" {
            // the host registers a native function under `name` in a module of its own (which may not exist yet); the function
            // is the event printer, so scripts of that module can report without any built-in
            let module = p.get("module").and_then(|k| k.as_str()).unwrap_or("main");
            let name = p.get("name").and_then(|k| k.as_str()).unwrap_or("emit");
            let r = panic::catch_unwind(panic::AssertUnwindSafe(|| vm.define_native(module, name, printer)));
            let events = SIM.with(|s| std::mem::take(&mut s.borrow_mut().events));
            match r {
                Ok(_) => outs.push(json!({"events": events, "outcome": {"defnative": true}})),
                Err(p) => {
                    outs.push(json!({"events": events, "outcome": {"panic": panic_msg(p)}}));
                    std::mem::forget(vm);
                    return finish(sc, outs);
                }
            }
            continue;
        }
        if kind == "peek" {
            // the host looks a global of some module up (a module the script may not have imported yet)
            let module = p.get("module").and_then(|k| k.as_str()).unwrap_or("main");
            let name = p.get("name").and_then(|k| k.as_str()).unwrap_or("");
            let r = panic::catch_unwind(panic::AssertUnwindSafe(|| vm.global(module, name).is_some()));
            let events = SIM.with(|s| std::mem::take(&mut s.borrow_mut().events));
            match r {
                Ok(found) => outs.push(json!({"events": events, "outcome": {"peek": found}})),
                Err(p) => {
                    outs.push(json!({"events": events, "outcome": {"panic": panic_msg(p)}}));
                    std::mem::forget(vm);
                    return finish(sc, outs);
                }
            }
            continue;
        }
        if kind == "setprinter" {
            // the host installs its printer again in the middle of a session (e.g. to redirect output)
            let r = panic::catch_unwind(panic::AssertUnwindSafe(|| vm.set_printer(printer)));
            let events = SIM.with(|s| std::mem::take(&mut s.borrow_mut().events));
            match r {
                Ok(_) => outs.push(json!({"events": events, "outcome": {"setprinter": true}})),
                Err(p) => {
                    outs.push(json!({"events": events, "outcome": {"panic": panic_msg(p)}}));
                    std::mem::forget(vm);
                    return finish(sc, outs);
                }
            }
            continue;
        }
        if kind == "hold" {
            // the host takes a script closure out of a module's globals and keeps it rooted (e.g. a registered callback)
            let module = p.get("module").and_then(|k| k.as_str()).unwrap_or("main").to_string();
            let name = p.get("name").and_then(|k| k.as_str()).unwrap_or("").to_string();
            let r = panic::catch_unwind(panic::AssertUnwindSafe(|| vm.global(&module, &name)));
            let events = SIM.with(|s| std::mem::take(&mut s.borrow_mut().events));
            match r {
                Ok(Some(yarel::value::Value::ObjClosure(c))) => {
                    held.push(yarel::memory::Root::from(c));
                    outs.push(json!({"events": events, "outcome": {"held": true}}));
                }
                Ok(_) => outs.push(json!({"events": events, "outcome": {"held": false}})),
                Err(p) => {
                    outs.push(json!({"events": events, "outcome": {"panic": panic_msg(p)}}));
                    std::mem::forget(vm);
                    return finish(sc, outs);
                }
            }
            continue;
        }
        if kind == "putback" {
            // ... and later hands it back to a script as a global
            let module = p.get("module").and_then(|k| k.as_str()).unwrap_or("main").to_string();
            let name = p.get("name").and_then(|k| k.as_str()).unwrap_or("").to_string();
            let slot = p.get("slot").and_then(|k| k.as_u64()).unwrap_or(0) as usize;
            if slot >= held.len() {
                outs.push(json!({"events": [], "outcome": {"putback": false}}));
                continue;
            }
            let value = yarel::value::Value::ObjClosure(held[slot].as_gc());
            let r = panic::catch_unwind(panic::AssertUnwindSafe(|| vm.set_global(&module, &name, value)));
            let events = SIM.with(|s| std::mem::take(&mut s.borrow_mut().events));
            match r {
                Ok(_) => outs.push(json!({"events": events, "outcome": {"putback": true}})),
                Err(p) => {
                    outs.push(json!({"events": events, "outcome": {"panic": panic_msg(p)}}));
                    std::mem::forget(vm);
                    return finish(sc, outs);
                }
            }
            continue;
        }
        if kind == "setloader" {
            // the host installs its module loader again in the middle of a session (e.g. after adding a search path)
            let r = panic::catch_unwind(panic::AssertUnwindSafe(|| vm.set_module_loader(loader)));
            let events = SIM.with(|s| std::mem::take(&mut s.borrow_mut().events));
            match r {
                Ok(_) => outs.push(json!({"events": events, "outcome": {"setloader": true}})),
                Err(p) => {
                    outs.push(json!({"events": events, "outcome": {"panic": panic_msg(p)}}));
                    std::mem::forget(vm);
                    return finish(sc, outs);
                }
            }
            continue;
        }
        if kind == "compile" {
            // the host compiles a program now and keeps the function (a Root) to execute it later
            let src = p.get("source").and_then(|k| k.as_str()).unwrap_or("").to_string();
            let r = panic::catch_unwind(panic::AssertUnwindSafe(|| yarel::compiler::compile(&mut vm, src, None)));
            let events = SIM.with(|s| std::mem::take(&mut s.borrow_mut().events));
            let outcome = match r {
                Ok(Ok(f)) => {
                    compiled.push(f);
                    json!({"compiled": compiled.len() - 1})
                }
                Ok(Err(e)) => json!({"err": format!("{:?}", e.kind()), "messages": e.messages()}),
                Err(p) => json!({"panic": panic_msg(p)}),
            };
            let stop = outcome.get("panic").is_some();
            outs.push(json!({"events": events, "outcome": outcome}));
            if stop {
                std::mem::forget(vm);
                return finish(sc, outs);
            }
            continue;
        }
        if kind == "run" {
            let slot = p.get("slot").and_then(|k| k.as_u64()).unwrap_or(0) as usize;
            let r = panic::catch_unwind(panic::AssertUnwindSafe(|| compiled.get(slot).map(|f| vm.execute(f.clone(), &[]))));
            let events = SIM.with(|s| std::mem::take(&mut s.borrow_mut().events));
            let outcome = match r {
                Ok(Some(Ok(_))) => json!({"ok": true}),
                Ok(Some(Err(e))) => json!({"err": format!("{:?}", e.kind()), "messages": e.messages()}),
                Ok(None) => json!({"no_such_slot": slot}),
                Err(p) => json!({"panic": panic_msg(p)}),
            };
            let stop = outcome.get("panic").is_some();
            outs.push(json!({"events": events, "outcome": outcome}));
            if stop {
                std::mem::forget(vm);
                std::mem::forget(compiled);
                return finish(sc, outs);
            }
            continue;
        }
        if kind == "exec" {
            // the host calls a global function of the script through the embedding API (Vm::global + Vm::execute)
            let name = p.get("name").and_then(|k| k.as_str()).unwrap_or("");
            let args: Vec<Value> = p
                .get("args")
                .and_then(|a| a.as_array())
                .map(|a| a.iter().map(|x| Value::Number(x.as_f64().unwrap_or(0.0))).collect())
                .unwrap_or_default();
            let r = panic::catch_unwind(panic::AssertUnwindSafe(|| match vm.global("main", name) {
                Some(Value::ObjClosure(closure)) => Some(vm.execute(closure.function.as_root(), &args)),
                _ => None,
            }));
            let events = SIM.with(|s| std::mem::take(&mut s.borrow_mut().events));
            let outcome = match r {
                // (the value handed back is whatever lay below the result on the value stack - the function object or
                // its last argument - and its text contains an address: not reported)
                Ok(Some(Ok(_))) => json!({"ok": true}),
                Ok(Some(Err(e))) => json!({"err": format!("{:?}", e.kind()), "messages": e.messages()}),
                Ok(None) => json!({"no_such_function": name}),
                Err(p) => json!({"panic": panic_msg(p)}),
            };
            let stop = outcome.get("panic").is_some();
            outs.push(json!({"events": events, "outcome": outcome}));
            if stop {
                std::mem::forget(vm);
                return finish(sc, outs);
            }
            continue;
        }
        let src = p
            .get("source")
            .and_then(|k| k.as_str())
            .unwrap_or("")
            .to_string();
        let in_module = p.get("module").and_then(|k| k.as_str()).map(|m| m.to_string());
        let r = panic::catch_unwind(panic::AssertUnwindSafe(|| {
            vm::interpret(&mut vm, src, in_module.as_deref())
        }));
        let events = SIM.with(|s| std::mem::take(&mut s.borrow_mut().events));
        let outcome = match r {
            Ok(Ok(_)) => json!({"ok": true}),
            Ok(Err(e)) => json!({"err": format!("{:?}", e.kind()), "messages": e.messages()}),
            Err(p) => json!({"panic": panic_msg(p)}),
        };
        let stop = outcome.get("panic").is_some();
        outs.push(json!({"events": events, "outcome": outcome}));
        if stop {
            // The interpreter may be in an arbitrary state after a panic; do not run its
            // destructor, just report.
            std::mem::forget(vm);
            return finish(sc, outs);
        }
    }
    let out = finish(sc, outs);
    let _ = panic::catch_unwind(panic::AssertUnwindSafe(move || {
        drop(compiled);
        drop(vm)
    }));
    out
}

fn panic_msg(p: Box<dyn std::any::Any + Send>) -> String {
    p.downcast_ref::<String>()
        .cloned()
        .or_else(|| p.downcast_ref::<&str>().map(|s| s.to_string()))
        .unwrap_or_else(|| "<non-string panic payload>".to_string())
}

fn finish(sc: &J, outs: Vec<J>) -> J {
    let gc = gc_report();
    SIM.with(|s| {
        let s = s.borrow();
        json!({
            "run": sc.get("run").cloned().unwrap_or(J::Null),
            "programs": outs,
            "fs_reads": s.fs_reads,
            "tape_used": s.tape_pos,
            "tape_exhausted": s.tape_exhausted,
            "faults_fired": s.fired,
            "events_dropped": s.events_dropped,
            "gc": gc,
        })
    })
}

fn main() {
    panic::set_hook(Box::new(|_| {}));
    let args: Vec<String> = std::env::args().collect();
    if args.len() > 1 && args[1] == "--info" {
        println!(
            "{}",
            json!({
                "debug_assertions": cfg!(debug_assertions),
                "hooks": cfg!(feature = "hooks"),
                "safe_stack": cfg!(feature = "safe_stack"),
                "safe_active_fiber": cfg!(feature = "safe_active_fiber"),
                "safe_vm_opcodes": cfg!(feature = "safe_vm_opcodes"),
                "safe_class_lookup": cfg!(feature = "safe_class_lookup"),
                "debug_stress_gc": cfg!(feature = "debug_stress_gc"),
            })
        );
        return;
    }
    let stdin = io::stdin();
    let stdout = io::stdout();
    for line in stdin.lock().lines() {
        let line = match line {
            Ok(l) => l,
            Err(_) => break,
        };
        if line.trim().is_empty() {
            continue;
        }
        let sc: J = match serde_json::from_str(&line) {
            Ok(j) => j,
            Err(e) => {
                let mut o = stdout.lock();
                writeln!(o, "{}", json!({"harness_error": format!("bad scenario json: {}", e)})).unwrap();
                o.flush().unwrap();
                continue;
            }
        };
        // the scenario's thread: 64 MiB of native stack unless the scenario asks for the size a host's main thread has
        let stack_mib = sc
            .get("config")
            .and_then(|c| c.get("stack_mib"))
            .and_then(|v| v.as_u64())
            .unwrap_or(64) as usize;
        let h = std::thread::Builder::new()
            .stack_size(stack_mib << 20)
            .spawn(move || {
                let out = run_scenario(&sc);
                gc_teardown();
                out
            })
            .unwrap();
        let out = match h.join() {
            Ok(j) => j,
            Err(_) => json!({"harness_error": "scenario thread panicked outside the interpreter"}),
        };
        let mut o = stdout.lock();
        writeln!(o, "{}", out).unwrap();
        o.flush().unwrap();
    }
}
