#!/bin/bash
# Final sensitivity matrix on the current tree: every seeded change against the quick tiers, the check of the property it breaks
# first, stopping at the first check that catches it. Splits the work into N shards that run side by side (own scratch dirs).
# usage: tools/final_matrix.sh [N]      then: python3 tools/merge_matrix.py
cd "$(dirname "$0")/.."
N=${1:-3}
ids=($(ls seeded | grep -E '^C[0-9]+-' | sort))
for s in $(seq 0 $((N-1))); do
  shard=""
  for i in "${!ids[@]}"; do if [ $((i % N)) -eq $s ]; then shard="$shard,${ids[$i]}"; fi; done
  shard=${shard#,}
  MX=/tmp/mxs$s nohup python3 tools/mutant_matrix.py --first-only --only "$shard" --out "$PWD/seeded/MATRIX.part$s.json" > /tmp/matrix_part$s.log 2>&1 &
  echo "shard $s: $(echo $shard | tr ',' '\n' | wc -l) changes, log /tmp/matrix_part$s.log"
done
