#!/bin/bash
# Runs every check twice with the same seed (16 workers, then 3 workers under another PYTHONHASHSEED) and compares an
# order-independent digest of every (configuration, scenario, full history) executed plus the merged counters.
# usage: selftest_determinism.sh [runs-scale] [ID...]
cd "$(dirname "$0")/.."
scale=${1:-1}; shift
ids=${@:-C01 C08 C09 C10 C12 C14 C15 C16}
declare -A RUNS=( [C01]=600 [C08]=600 [C09]=2000 [C10]=900 [C12]=2000 [C14]=3000 [C15]=500 [C16]=60 )
rc=0
for id in $ids; do
  n=$(( ${RUNS[$id]} * scale ))
  for seed in 7 20260924; do
    a=$(VERIF_SEED=$seed VERIF_DIGEST=1 PYTHONHASHSEED=1 ./check $id --runs $n --workers 16 --no-build | grep -E "^digest|^VIOLATION")
    b=$(VERIF_SEED=$seed VERIF_DIGEST=1 PYTHONHASHSEED=4242 ./check $id --runs $n --workers 3 --no-build | grep -E "^digest|^VIOLATION")
    if [ "$a" == "$b" ] && [ -n "$a" ]; then echo "$id seed=$seed runs=$n deterministic: $a"; else echo "$id seed=$seed runs=$n NONDETERMINISTIC: [$a] vs [$b]"; rc=1; fi
  done
done
exit $rc
