#!/bin/bash
# No alarm on the unchanged tree: runs the quick tier of every check under several seeds; every run must exit 0.
# usage: selftest_seeds.sh "<seeds>" [ID...]
cd "$(dirname "$0")/.."
seeds=${1:-"1 2 3 4 5"}; shift
ids=${@:-C01 C08 C09 C10 C12 C14 C15 C16}
rc=0
for s in $seeds; do
  for id in $ids; do
    out=$(VERIF_SEED=$s ./check $id --tier quick 2>&1); e=$?
    if [ $e -ne 0 ]; then echo "seed=$s $id EXIT=$e"; echo "$out" | grep -E "violation|VIOLATION|HARNESS|WARNING" | head -5; rc=1; else echo "seed=$s $id ok $(echo "$out" | grep -E '^cases=' )"; fi
  done
done
exit $rc
