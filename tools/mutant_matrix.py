#!/usr/bin/env python3
"""Runs the quick tier of the given checks against every seeded mutant in an isolated scratch copy
(scratch worktree of /repo + scratch copy of runner/), never touching /repo. Writes seeded/MATRIX.json.
usage: mutant_matrix.py [--checks C01,C08,...] [--only C08-1,...] [--tier quick] [--first-only] [--out FILE]
--first-only: run the check of the property the change breaks first and stop at the first check that catches it (rows are then
partial: "which check catches it", not "which checks catch it"). env MX: scratch directory (several instances can run side by side)."""
import glob, json, os, shutil, subprocess, sys, time
ROOT = os.path.dirname(os.path.dirname(os.path.abspath(__file__)))
MX = os.environ.get("MX", "/tmp/mx")
ALL = ["C01", "C08", "C09", "C10", "C12", "C14", "C15", "C16"]

def sh(cmd, cwd=None, env=None, timeout=3600):
    p = subprocess.run(cmd, shell=True, cwd=cwd, env=env, stdout=subprocess.PIPE, stderr=subprocess.STDOUT, text=True, timeout=timeout)
    return p.returncode, p.stdout

def main():
    args = sys.argv[1:]
    checks = ALL; only = None; tier = "quick"
    first_only = "--first-only" in args
    out_path = None
    for i, a in enumerate(args):
        if a == "--out": out_path = args[i + 1]
        if a == "--checks": checks = args[i + 1].split(",")
        if a == "--only": only = args[i + 1].split(",")
        if a == "--tier": tier = args[i + 1]
    os.makedirs(MX, exist_ok=True)
    repo = MX + "/repo"
    if not os.path.isdir(repo):
        rc, out = sh("git -C /repo worktree add --detach %s HEAD" % repo); assert rc == 0, out
    head = sh("git -C /repo rev-parse HEAD")[1].strip()
    rc, out = sh("git reset -q --hard && git checkout -q --detach %s && git reset -q --hard" % head, cwd=repo)
    assert rc == 0 and sh("git rev-parse HEAD", cwd=repo)[1].strip() == head, out
    runner = MX + "/runner"
    if not os.path.isdir(runner):
        os.makedirs(runner)
    for f in ("Cargo.toml", "Cargo.lock"):
        shutil.copy(os.path.join(ROOT, "runner", f), runner)
    shutil.copytree(os.path.join(ROOT, "runner", "src"), runner + "/src", dirs_exist_ok=True)
    shutil.copytree(os.path.join(ROOT, "runner", ".cargo"), runner + "/.cargo", dirs_exist_ok=True)
    t = open(runner + "/Cargo.toml").read().replace('path = "/repo/yarel"', 'path = "%s/yarel"' % repo)
    open(runner + "/Cargo.toml", "w").write(t)
    env = dict(os.environ, VERIF_RUNNER_DIR=runner, VERIF_OUT_DIR=MX + "/out")
    matrix_path = out_path or os.path.join(ROOT, "seeded", "MATRIX.json")
    matrix = json.load(open(matrix_path)) if os.path.exists(matrix_path) else {}
    for d in sorted(glob.glob(ROOT + "/seeded/C*-*")):
        mid = os.path.basename(d)
        if only and mid not in only: continue
        sh("git reset -q --hard", cwd=repo)
        rc, out = sh("git apply %s/patch.diff" % d, cwd=repo)
        if rc != 0:
            print(mid, "PATCH DOES NOT APPLY", out[-200:]); continue
        row = {} if first_only else matrix.get(mid, {})
        own = json.load(open(d + "/meta.json")).get("property") or mid.split("-")[0]
        order = ([own] if own in checks else []) + [c for c in checks if c != own]
        for c in order:
            t0 = time.time()
            rc, out = sh("./check %s --tier %s" % (c, tier), cwd=ROOT, env=env)
            viol = [l for l in out.splitlines() if l.startswith("violation class=")]
            row[c] = {"exit": rc, "seconds": round(time.time() - t0, 1), "first_violation": viol[0][:300] if viol else None}
            print(mid, c, "exit=%d" % rc, "%.0fs" % (time.time() - t0), (viol[0][:140] if viol else ""), flush=True)
            if first_only and rc == 1:
                break
        matrix[mid] = row
        json.dump(matrix, open(matrix_path, "w"), indent=1, sort_keys=True)
    sh("git reset -q --hard", cwd=repo)
main()
