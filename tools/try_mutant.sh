#!/bin/bash
# usage: try_mutant.sh <patch.diff> <PROP-ID>...
# Applies the patch to a scratch worktree of /repo HEAD (/tmp/mx2/repo) and runs the checks against a scratch copy of
# runner/ that depends on that worktree. /repo itself is never touched.
patch="$(readlink -f "$1")"; shift
MX=${MX:-/tmp/mx2}
mkdir -p $MX
if [ ! -d $MX/repo ]; then git -C /repo worktree add --detach $MX/repo HEAD >/dev/null 2>&1 || exit 2; fi
head=$(git -C /repo rev-parse HEAD)
(cd $MX/repo && git reset -q --hard && git checkout -q --detach $head && git reset -q --hard && [ "$(git rev-parse HEAD)" == "$head" ]) || { echo "scratch worktree not at HEAD"; exit 2; }
mkdir -p $MX/runner
cp /verif/runner/Cargo.lock $MX/runner/; sed "s|path = \"/repo/yarel\"|path = \"$MX/repo/yarel\"|" /verif/runner/Cargo.toml > $MX/runner/Cargo.toml
rm -rf $MX/runner/src $MX/runner/.cargo; cp -r /verif/runner/src /verif/runner/.cargo $MX/runner/
cd $MX/repo
if git apply --check "$patch" 2>/dev/null; then git apply "$patch"
elif git apply --3way "$patch" 2>/dev/null && [ -z "$(git diff --name-only --diff-filter=U)" ]; then git reset -q
else git reset -q --hard; echo "PATCH DOES NOT APPLY: $patch"; exit 3; fi
cd /verif
for id in "$@"; do
  echo "=== $id with $patch"
  VERIF_RUNNER_DIR=$MX/runner VERIF_OUT_DIR=$MX/out timeout ${TMO:-1200} ./check "$id" --tier "${TIER:-quick}" ${EXTRA:-} 2>&1 | grep -v "^KNOWN-FINDING" | tail -${TAIL:-6} | cut -c1-${CUT:-260}
  echo "exit=${PIPESTATUS[0]}"
done
(cd $MX/repo && git reset -q --hard)
