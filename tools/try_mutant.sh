#!/bin/bash
# usage: try_mutant.sh <patch.diff> <PROP-ID>... ; applies the patch to /repo, runs the quick checks, reverts.
patch="$1"; shift
cd /repo || exit 2
if ! git apply --check "$patch" 2>/dev/null; then
  if ! git apply --3way --check "$patch" 2>/dev/null; then echo "PATCH DOES NOT APPLY: $patch"; exit 3; fi
fi
git apply "$patch" || git apply --3way "$patch" || exit 3
trap 'cd /repo && git checkout -- . && git status --short | head -3' EXIT
cd /verif
for id in "$@"; do
  echo "=== $id with $(basename $patch)"
  timeout 900 ./check "$id" --tier "${TIER:-quick}" 2>&1 | grep -v "^KNOWN-FINDING" | tail -${TAIL:-6}
  echo "exit=${PIPESTATUS[0]}"
done
