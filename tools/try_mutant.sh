#!/bin/bash
# usage: try_mutant.sh <patch.diff> <PROP-ID>... ; applies the patch to /repo, runs the checks, reverts.
patch="$1"; shift
cd /repo || exit 2
if [ -n "$(git status --porcelain --untracked-files=no)" ]; then echo "/repo is dirty"; exit 2; fi
if git apply --check "$patch" 2>/dev/null; then git apply "$patch"
elif git apply --3way "$patch" 2>/dev/null && [ -z "$(git diff --name-only --diff-filter=U)" ]; then git reset -q
else git reset -q --hard HEAD; echo "PATCH DOES NOT APPLY: $patch"; exit 3; fi
trap 'cd /repo && git reset -q --hard HEAD && git status --short | head -3' EXIT
cd /verif
for id in "$@"; do
  echo "=== $id with $patch"
  timeout ${TMO:-900} ./check "$id" --tier "${TIER:-quick}" 2>&1 | grep -v "^KNOWN-FINDING" | tail -${TAIL:-6} | cut -c1-${CUT:-260}
  echo "exit=${PIPESTATUS[0]}"
done
