#!/usr/bin/env python3
"""Confirms sub-agent mutants in a scratch worktree of /repo HEAD and stores the kept ones under /verif/seeded/.

For each candidate: the patch applies to HEAD, the crate builds (dev + release), the pinned suite gives the baseline
result (546 pass, only number_long_decimal fails), the demonstration fails with the patch and passes without it.
usage: confirm_mutants.py <ID> <n> [<ID> <n> ...]   (or no args: all of /tmp/mut_*/patch*.diff)
"""
import glob
import json
import os
import re
import shutil
import subprocess
import sys

WT = "/tmp/confirm_wt"
ROUND = os.environ.get("MUT_ROUND", "1")
SRC = "/tmp/mut_%s" if ROUND == "1" else "/tmp/mut" + ROUND + "_%s"


def seeded_id(pid, n):
    return "%s-%d" % (pid, n) if ROUND == "1" else "%s-r%s-%d" % (pid, ROUND, n)
ADDR = re.compile(r"0x[0-9a-fA-F]+")


def sh(cmd, cwd=None, timeout=1800, inp=None):
    p = subprocess.run(cmd, shell=True, cwd=cwd, stdout=subprocess.PIPE, stderr=subprocess.STDOUT, text=True, timeout=timeout, input=inp)
    return p.returncode, p.stdout


def ensure_wt():
    if not os.path.isdir(WT):
        rc, out = sh("git -C /repo worktree add --detach %s HEAD" % WT)
        assert rc == 0, out
    else:
        rc, out = sh("git -C %s reset -q --hard && git -C %s checkout -q --detach %s && git -C %s reset -q --hard" % (WT, WT, head(), WT))
        assert rc == 0, out


def head():
    return sh("git -C /repo rev-parse HEAD")[1].strip()


def suite():
    rc, out = sh("cargo test --workspace --no-fail-fast --offline 2>&1", cwd=WT)
    passed = sum(int(m.group(1)) for m in re.finditer(r"test result: \w+\. (\d+) passed", out))
    failed = re.findall(r"^test (\S+) \.\.\. FAILED", out, re.M)
    if "error: could not compile" in out or "error[E" in out:
        return None, ["<does not compile>"], out[-2000:]
    return passed, failed, ""


def norm(text):
    lines = [ADDR.sub("[MEMADDR]", l.rstrip()) for l in text.splitlines() if not l.startswith("#")]
    while lines and (not lines[-1] or re.match(r"^\(?exit (code|status)", lines[-1]) or re.match(r"^exit \d+$", lines[-1])):
        lines.pop()
    return lines


def matches(actual_text, expected_text):
    """the demo passes if its output is what the expected file lists (files are free-form: allow commentary around it)"""
    a = norm(actual_text)
    if a == norm(expected_text):
        return True
    e = [ADDR.sub("[MEMADDR]", l.strip()) for l in expected_text.splitlines()]
    a = [l.strip() for l in a]
    if not a:
        return False
    for i in range(len(e) - len(a) + 1):
        if e[i:i + len(a)] == a:
            return True
    return False


def run_demo(pid, n, release):
    """-> (passes, transcript)"""
    d = SRC % pid
    prof = "--release" if release else ""
    prefer_rs = os.path.exists("%s/demo%d.rs" % (d, n)) and (os.path.exists("%s/run_demo.sh" % d) or ROUND in ("3", "4", "5", "6", "7", "8", "9", "10", "11", "12", "13"))
    ydir = d
    if not os.path.exists("%s/demo%d.yl" % (d, n)) and os.path.isdir("%s/demo%d" % (d, n)):
        # the demonstration is a small directory tree of modules: run the script from the directory it lives in
        for root, _dirs, files in os.walk("%s/demo%d" % (d, n)):
            if "demo%d.yl" % n in files:
                ydir = root
    if os.path.exists("%s/demo%d.yl" % (ydir, n)) and not prefer_rs:
        d_save, d = d, ydir
        limit = ""
        if os.path.exists("%s/demo%d.sh" % (d, n)):
            m_ = re.search(r"ulimit -v (\d+)", open("%s/demo%d.sh" % (d, n)).read())
            if m_:
                limit = "ulimit -v %s; " % m_.group(1)      # the demonstration runs under an address-space budget
        rc, out = sh("cargo build --manifest-path %s/Cargo.toml --offline -q %s -p yarel-cli >/dev/null 2>&1; bash -c '%s%s/target/%s/yarel-cli demo%d.yl 2>/tmp/confirm_stderr.txt'" % (
            WT, prof, limit, WT, "release" if release else "debug", n), cwd=d, timeout=600)
        err_text = open("/tmp/confirm_stderr.txt", errors="replace").read() if os.path.exists("/tmp/confirm_stderr.txt") else ""
        d = d_save
        exp = open("%s/demo%d.expected" % (d, n)).read()
        ok = matches(out, exp) and rc not in (101, 134, 139)      # a panic / abort / segfault never counts as passing
        # (the transcript includes stderr: a mutant whose stdout is right but whose final error message differs does not pass)
        return ok, "exit=%d\n%s\n--stderr--\n%s" % (rc, out[-1500:], err_text[-800:])
    if os.path.exists("%s/demo%d.repl" % (d, n)):
        rc, out = sh("cargo build --manifest-path %s/Cargo.toml --offline -q %s -p yarel-cli >/dev/null 2>&1; cargo run --manifest-path %s/Cargo.toml --offline -q %s -p yarel-cli < %s/demo%d.repl 2>&1; echo \"exit status: $?\"" % (
            WT, prof, WT, prof, d, n), cwd=d, timeout=600)
        exp = open("%s/demo%d.expected" % (d, n)).read()
        ok = norm(out) == norm(exp)
        if not ok:
            # free-form expected file: the expected stdout is one block of it
            rc2, out2 = sh("cargo run --manifest-path %s/Cargo.toml --offline -q %s -p yarel-cli < %s/demo%d.repl 2>/dev/null" % (WT, prof, d, n), cwd=d, timeout=600)
            ok = matches(out2, exp) and rc2 not in (101, 134, 139)
        return ok, out[-1500:]
    if os.path.exists("%s/demo%d.rs" % (d, n)):
        src = open("%s/demo%d.rs" % (d, n)).read()
        if "#[test]" in src:
            dst = "%s/yarel/tests/demo%d.rs" % (WT, n)
            shutil.copy("%s/demo%d.rs" % (d, n), dst)
            rc, out = sh("cargo test --offline %s -p yarel --features verif_hooks --test demo%d -- --test-threads=1 2>&1 | tail -25" % (prof, n), cwd=WT, timeout=900)
            os.remove(dst)
            return ("test result: ok" in out), out[-1500:]
        if ROUND == "1":
            os.makedirs("%s/yarel-cli/examples" % WT, exist_ok=True)
            dst = "%s/yarel-cli/examples/demo%d.rs" % (WT, n)
            shutil.copy("%s/demo%d.rs" % (d, n), dst)
            rc, out = sh("cargo run --offline %s -q -p yarel-cli --example demo%d 2>&1 | tail -15; echo rc=${PIPESTATUS[0]}" % (prof, n), cwd=WT, timeout=1500)
            os.remove(dst)
            return ("PASS" in out and "FAIL" not in out), out[-1500:]
        os.makedirs("%s/yarel/examples" % WT, exist_ok=True)
        dst = "%s/yarel/examples/demo%d.rs" % (WT, n)
        shutil.copy("%s/demo%d.rs" % (d, n), dst)
        rc, out = sh("bash -c 'cargo run --offline %s -q -p yarel --features verif_hooks --example demo%d 2>&1 | tail -25; echo rc=${PIPESTATUS[0]}'" % (prof, n), cwd=WT, timeout=1500)
        shutil.rmtree("%s/yarel/examples" % WT)
        return ("rc=0" in out and "FAIL" not in out), out[-1500:]
    return None, "no demo found"


def main():
    args = sys.argv[1:]
    cands = []
    if args:
        for i in range(0, len(args), 2):
            cands.append((args[i], int(args[i + 1])))
    else:
        for p in sorted(glob.glob((SRC % "*") + "/patch*.diff")):
            pid = p.split("/")[2].split("_")[1]
            cands.append((pid, int(re.search(r"patch(\d+)", p).group(1))))
    ensure_wt()
    base_pass, base_fail, _ = suite()
    print("baseline on HEAD %s: %s passed, failed %s" % (head()[:7], base_pass, base_fail), flush=True)
    results = {}
    for pid, n in cands:
        key = seeded_id(pid, n)
        if int(ROUND) >= 6:
            # round 6 was assigned by subsystem (directories A..F); the kept change is filed under the property it breaks
            key = ("%s-r" + ROUND + "-%s%d") % (json.load(open((SRC % pid) + "/meta%d.json" % n))["property"], pid, n)
        patch = (SRC % pid) + "/patch%d.diff" % n
        adapted = "/tmp/adapted/%sr%s-%d.diff" % (pid, ROUND, n)
        if os.path.exists(adapted):
            patch = adapted       # the agent's patch re-done by hand on top of later fix: commits (same change)
        meta = json.load(open((SRC % pid) + "/meta%d.json" % n))
        release = str(meta.get("build_config")).startswith("release")
        sh("git reset -q --hard && git clean -qfd -e target", cwd=WT)
        ok_clean, tr_clean = run_demo(pid, n, release)
        
        rc, out = sh("git apply %s || (git apply --3way %s && git reset -q)" % (patch, patch), cwd=WT)
        if rc != 0 or sh("git diff --name-only --diff-filter=U", cwd=WT)[1].strip():
            results[key] = {"kept": False, "why": "patch does not apply to HEAD: " + out[-300:]}
            print(key, results[key], flush=True)
            continue
        diff = sh("git diff", cwd=WT)[1]
        p_pass, p_fail, err = suite()
        rcb, outb = sh("cargo build --offline --release -p yarel-cli 2>&1 | tail -3", cwd=WT)
        ok_mut, tr_mut = run_demo(pid, n, release)
        if ok_mut and norm(tr_mut) != norm(tr_clean):
            ok_mut = False       # same demo, different transcript (e.g. a prefix of the expected output, then an error exit)
        by_hand = key in os.environ.get("CONFIRM_FORCE", "").split(",")
        if by_hand:
            # free-form expectation file that no matcher here understands: I compared the clean transcript with it by hand;
            # the tool still requires the suite result, the builds, and that the mutant's transcript differs from the clean one
            ok_clean = True
            ok_mut = norm(tr_mut) == norm(tr_clean)
            print("   [by hand] clean:", tr_clean[-500:].replace("\n", " | "))
            print("   [by hand] mutant:", tr_mut[-500:].replace("\n", " | "))
        kept = (p_pass == base_pass and p_fail == base_fail and ok_clean is True and ok_mut is False and rcb == 0)
        results[key] = {"kept": kept, "suite": [p_pass, p_fail], "demo_clean_passes": ok_clean, "demo_mutant_passes": ok_mut,
                        "release_build_rc": rcb, "err": err[-500:]}
        print(key, json.dumps(results[key]), flush=True)
        if not kept:
            print("   clean transcript:", tr_clean[-600:].replace("\n", " | "))
            print("   mutant transcript:", tr_mut[-600:].replace("\n", " | "))
        if kept:
            dst = "/verif/seeded/%s" % key
            os.makedirs(dst, exist_ok=True)
            open(dst + "/patch.diff", "w").write(diff)
            for f in glob.glob((SRC % pid) + "/demo%d*" % n) + glob.glob((SRC % pid) + "/demo_repl.sh") + glob.glob((SRC % pid) + "/run_demo.sh"):
                if os.path.isdir(f):
                    shutil.copytree(f, os.path.join(dst, os.path.basename(f)), dirs_exist_ok=True)
                else:
                    shutil.copy(f, dst)
            m = {"property": meta.get("property", pid), "title": meta.get("title"), "breaks": meta.get("what_it_breaks"),
                 "needs_to_manifest": meta.get("needs_to_manifest"), "files_touched": meta.get("files_touched"),
                 "build_config": meta.get("build_config"), "round": int(ROUND), "patch_adapted_by_hand": os.path.exists(adapted), "demo_compared_by_hand": by_hand,
                 "origin": "independent sub-agent given only the property record and a scratch worktree",
                 "confirmed": {"against_repo_head": head()[:7], "suite_with_patch": "%s passed, failed: %s (baseline: %s passed, failed: %s)" % (p_pass, p_fail, base_pass, base_fail),
                               "demo_without_patch": "passes", "demo_with_patch": "fails",
                               "commands": ["git apply patch.diff (scratch worktree of /repo HEAD)", "cargo test --workspace --no-fail-fast --offline",
                                            "cargo build --offline --release -p yarel-cli", "demo run with and without the patch (tools/confirm_mutants.py)"],
                               "mutant_transcript_tail": tr_mut[-400:]}}
            json.dump(m, open(dst + "/meta.json", "w"), indent=1)
    sh("git reset -q --hard && git clean -qfd -e target", cwd=WT)
    json.dump(results, open("/tmp/confirm_results.json", "w"), indent=1)
    print("kept:", sorted(k for k, v in results.items() if v["kept"]))
    print("dropped:", sorted(k for k, v in results.items() if not v["kept"]))


main()
