#!/bin/bash
# Reach measurement: line/region coverage of yarel/src by the checks' workloads (not part of any check).
# Builds instrumented runner binaries (nightly toolchain, -C instrument-coverage) from /repo's working tree in a scratch
# directory, runs the given checks against them and prints the per-file summary plus the uncovered lines of vm.rs etc.
# (C10 runs too, for the corpus scripts, but its verdict under these binaries means nothing: every configuration name maps to a hooks build.)
# usage: tools/coverage.sh [RUNS] [ID...]      output: $COV/report.txt, $COV/uncovered_<file>.txt
RUNS=${1:-1500}; shift
IDS=${@:-C01 C08 C09 C12 C14 C15 C16 C10}
COV=${COV:-/root/scratch/cov}
TOOLS=$(dirname $(find ~/.rustup/toolchains/nightly-x86_64-unknown-linux-gnu -name llvm-profdata | head -1))
mkdir -p $COV/runner $COV/prof
cp /verif/runner/Cargo.lock /verif/runner/Cargo.toml $COV/runner/
rm -rf $COV/runner/src $COV/runner/.cargo $COV/prof/*; cp -r /verif/runner/src /verif/runner/.cargo $COV/runner/
cd $COV/runner   # (cargo runs build scripts with the package directory as cwd: point their default profile output away from /repo)
export LLVM_PROFILE_FILE=$COV/prof/build-%p-%m.profraw
for cfg in checked release; do
  RUSTFLAGS="-C instrument-coverage" CARGO_NET_OFFLINE=true cargo +nightly build --offline --profile $cfg --features hooks --target-dir $COV/target 2>&1 | tail -1
done
mkdir -p bin
for n in checked checked_hooks; do cp $COV/target/checked/runner bin/$n; done
for n in release release_hooks release_safe_active_fiber_debug_stress_gc; do cp $COV/target/release/runner bin/$n; done
cd /verif
for id in $IDS; do
  VERIF_GRACEFUL_STOP=1 LLVM_PROFILE_FILE="$COV/prof/$id-%p-%8m.profraw" VERIF_RUNNER_DIR=$COV/runner VERIF_OUT_DIR=$COV/out \
    ./check $id --no-build --runs $RUNS 2>&1 | tail -1
done
rm -f $COV/prof/build-*.profraw
$TOOLS/llvm-profdata merge -sparse $COV/prof/*.profraw -o $COV/merged.profdata
$TOOLS/llvm-cov report -instr-profile=$COV/merged.profdata -object $COV/target/checked/runner -object $COV/target/release/runner \
   --ignore-filename-regex='(registry|rustc|runner/src)' > $COV/report.txt
cat $COV/report.txt
for f in vm compiler memory object core class_store hash scanner; do
  $TOOLS/llvm-cov show -instr-profile=$COV/merged.profdata -object $COV/target/checked/runner -object $COV/target/release/runner \
     --show-line-counts-or-regions=false /repo/yarel/src/$f.rs 2>/dev/null | grep -E '^ +[0-9]+\| +0\|' > $COV/uncovered_$f.txt
done
wc -l $COV/uncovered_*.txt
