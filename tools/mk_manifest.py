#!/usr/bin/env python3
"""Regenerates /verif/MANIFEST.json from the table below (kept in one place so that it stays valid)."""
import json, os, subprocess
ROOT = os.path.dirname(os.path.dirname(os.path.abspath(__file__)))

NA = {
 "C02": "pure function of the program/arguments: no schedule, fault or history dimension for a simulator to own (input generation / fuzzing target). Panics, aborts and hangs met by any simulation below are reported as violations of the property under check.",
 "C03": "compilation is a pure function of the source text: no schedule, clock, fault or interleaving to simulate (fuzzing target).",
 "C04": "a statement about all control-flow paths of emitted bytecode, decided by abstract interpretation of the chunk; nothing to schedule or fault.",
 "C05": "expression/control-flow semantics are a pure function of the program text (differential testing against a reference interpreter, not simulation).",
 "C06": "lexical scoping and closure capture are a pure function of the program text; the one schedule-dependent corner (variables captured across fibers) is exercised inside C09/C01 but does not cover the property.",
 "C07": "class semantics are a pure function of the program text.",
 "C11": "the intern table is a sequential, permanently rooted data structure: no collection schedule, fault or restart can interact with it; what remains is model-based testing of a deterministic table.",
 "C13": "indexing, slicing and string functions are pure functions of their arguments.",
 "C17": "error class/message/line reporting is a pure function of the program; the host-error-class clause is exercised by C08's fault kinds but line/trace correctness is not a simulation target.",
 "C18": "iteration protocol behaviour is a pure function of the program (interleaved loops are interleaved in the text, not by a scheduler).",
 "C19": "number formatting/parsing round-trip is a pure function of the number/literal.",
}

CHECKS = {
 "C10": dict(level="exploration", ref="DESIGN.md section 4 (C10)",
   text="Cross-configuration differential simulation: one scenario (program(s) + decision tape + fault plan + simulated file system; drawn from the generators of the exception, fiber, map, module, session, loop-program and heap-shape checks) and every script of the repository's test corpus is executed by runner binaries built WITHOUT hooks as checked (every debug-assertion-guarded check on, collect at every allocation), release (unchecked stack, raw active-fiber pointer, threshold pacing) and mixes of the safe_*/debug_stress_gc switches (thorough tier: each switch alone, all together, and dev); typed event history, outcome kind and messages must equal the checked build's. Scenarios are sampled: evidence, not proof.",
   note="Trusted: the runner seams; generators' shapes bound what can be found (listed in the evidence); scenarios inside open C08 findings are excluded.",
   technique="deterministic simulation across build configurations: same seed/tape/fault plan replayed in every build, history equality against the checked build"),
 "C16": dict(level="exploration", ref="DESIGN.md section 4 (C16)",
   text="Seeded search over allocation histories: generated loop programs with a bounded live set (ring of slots, optional transient spikes) and random subsets of 35 kinds of per-iteration garbage, with caught injected failures at PRNG-chosen dynamic occurrences inside the loop body, run under the real threshold pacing of the release build while a monitor fed by the hook's allocation/collection event stream checks at EVERY allocation the stated byte bound (heap <= max(64 KiB, 2 x live after the previous collection) + this allocation, with byte totals recomputed from the object list) and accounting consistency, and over the history compares object counts and rooted-object counts after a final collection between N and 2N iterations, pacing liveness, and the program result against a never-collect run; absolute invariants at quiescence (fiber objects alive = reachable ones) and across a dropped interpreter / reset rounds; a family of loop bodies made of built-in calls with awkward arguments (error paths of natives). A clean batch is evidence, not proof.",
   note="Trusted: the observe-only hooks (event stream, statistics, force-collect) and the runner's monitor. The bound is on yarel's own accounting unit (shallow object sizes).",
   technique="deterministic simulation with fault injection: invariant monitor over the allocation/collection event stream under native pacing, conservation check N vs 2N iterations, injected caught failures in the loop body"),
 "C01": dict(level="exploration", ref="DESIGN.md section 4 (C01)",
   text="The simulator owns the collection schedule: every generated heap-shape program (retention chains root -> edges -> target in which the chain is the only path to the target, over catalogues of 19 edge kinds, 17 target kinds and 18 root kinds incl. suspended/calling/dropped fibers, open captured variables, module attributes, values in flight through finally/unwinding; plus 39 operations that make the interpreter hold fresh objects mid-operation) runs under never-collect (reference), collect-at-every-allocation and a PRNG collection tape, with reclaimed objects quarantined so that every dereference of a prematurely reclaimed object and every access through an open captured variable into a reclaimed fiber stack is recorded. Oracle: zero use-after-reclaim events, identical histories across schedules, no panic. The schedule dimension is closed by dominance (collect-always sees what any schedule can see); heap shapes are sampled: evidence, not proof. The repository's script corpus and generated programs calling every built-in with awkward arguments run under the same schedules and monitors.",
   note="Trusted: the verif_hooks quarantine and monitor (add-only hooks in memory.rs/object.rs); a premature reclaim is only visible if the program touches the object again (every gadget reads its target back); real free() is not exercised.",
   technique="deterministic simulation: simulator-owned GC schedule (never/always/tape) with quarantine, use-after-reclaim monitor on every managed dereference, no-object-reclaimed-while-borrowed invariant at every sweep, differential history comparison against the never-collect run"),
 "C12": dict(level="exploration", ref="DESIGN.md section 4 (C12)",
   text="Seeded search over operation histories (literal construction incl. duplicate and unhashable keys, insert, remove, get, has_key, clear, len, keys, values, items) on 1-3 maps whose keys are built at run time in different ways so that equal keys are distinct objects and are referenced only by the map, crossed with the collection schedule (every allocation, and a PRNG tape) under quarantine so that a key or value the map fails to keep alive is an observable use-after-reclaim; also the plain release build. Every operation result is compared with an association-list model keyed by the language's ==, enumerations as multisets. A clean batch is evidence, not proof.",
   note="Trusted: the abstract map model and its == ; the verif_hooks quarantine/monitor; the runner's value encoding.",
   technique="deterministic simulation: model-based operation histories x simulator-owned collection schedule with quarantine (use-after-reclaim monitor), op-by-op comparison with an abstract map"),
 "C14": dict(level="exploration", ref="DESIGN.md section 4 (C14)",
   text="Seeded search over import graphs (chains, DAGs, diamonds, self-loops, 2-/3-cycles, mixtures; import sites at module top level, under alias, inside try, inside functions called later, inside fibers) x a simulated file system behind the module-loader seam (per read: ok, not found, read error with every reason string of the default loader, garbled, truncated at a statement boundary, transient) x injected failures inside module bodies x a decision tape that chooses at run time what the driver imports, calls, mutates, and which half-loaded module it suspends inside a fiber and imports meanwhile. The real compiler+VM run in checked and release builds; the full event history and the number of file reads per module must equal a module-system reference model; independently of the model no module body may run twice. A clean batch is evidence, not proof.",
   note="Trusted: the module-system reference model, the runner's loader/printer seams. Open by the property (import of a module whose body failed part-way): executed, must not crash or re-run the body, not compared (counted).",
   technique="deterministic simulation with fault injection: simulated file system with per-read faults behind the module-loader seam, tape-driven import schedule incl. suspension mid-load, reference-model history equality"),
 "C15": dict(level="fault_enumeration", ref="DESIGN.md section 4 (C15)",
   text="Seeded generation of REPL-style sessions on one interpreter; within each session every single crash point (each dynamic fault point of the crash-free run fails once: top level, nested calls, methods, fibers, nested fibers, try/finally, imported module bodies) is enumerated when the session has <= 30 of them, plus sampled multi-crash plans, uncaught throws at several depths, non-compiling snippets and Vm::reset as generated operations; each plan runs in the checked and release builds and is compared snippet-by-snippet with a session reference model, and the suffix after the last reset is replayed on a fresh interpreter (model-free metamorphic check); in addition every script of the repository's corpus is the first program of two model-free sessions ([A, reset, B] and [A, probe]) whose last program must behave exactly as on a new interpreter. Evidence, not proof: sessions are sampled.",
   note="Trusted: the session model and the runner's seams. Left open by the property and therefore executed without comparison (counted): later use of fibers that were active when a snippet failed, re-import of a module whose body failed.",
   technique="deterministic simulation with fault injection: crash points injected through a host-native fault point into session histories on one Vm, session reference model + reset-vs-fresh metamorphic replay, single-crash enumeration per session"),
 "C09": dict(level="exploration", ref="DESIGN.md section 4 (C09)",
   text="Seeded search over fiber programs x schedules: the simulator's scheduler (PRNG, aware of every fiber's state through the reference model) decides at run time which fiber is resumed, with what value and how many arguments, when fibers are abandoned and replaced, and when illegal transfers are attempted; the real VM executes the tape in the checked and release builds (and a slice under collect-at-every-allocation with quarantine) and the complete event history must equal that of a coroutine reference model (one Python generator per fiber). A clean batch is evidence, not proof.",
   note="Trusted: the coroutine reference model and the runner's printer seam. Error classes of illegal transfers are implementation-confirmed; where two error conditions hold at once either class is accepted.",
   technique="deterministic simulation: seeded scheduler owning every fiber transfer via a host-native decision tape, coroutine reference model, history equality across build profiles"),
 "C08": dict(level="fault_enumeration", ref="DESIGN.md section 4 (C08)",
   text="Seeded generation of handler nests; within each nest every single-fault placement on the fault-free path is enumerated (each dynamic fault point fails once, kinds rotating over all host ErrorKinds and 23 failing built-in operations) plus sampled multi-fault plans aimed at recovery code; every plan is executed by the real compiler+VM in the checked and the release profile and compared event-by-event with a reference interpreter built on Python's own try/except/finally. Evidence, not proof: nests are sampled.",
   note="Trusted: the Python reference semantics; the runner's printer seam; scenarios in the region of an open known finding are not generated or are executed without comparison (counted in the evidence).",
   technique="deterministic simulation with fault injection: PRNG-chosen fault plans injected through a host-native fault point, reference-model trace equality, single-fault enumeration per nest"),
}

def main():
    checks = []
    for pid in sorted(CHECKS):
        c = CHECKS[pid]
        checks.append({
            "property_id": pid,
            "quick_cmd": "./check %s --tier quick" % pid,
            "thorough_cmd": "./check %s --tier thorough" % pid,
            "evidence_file": "evidence/%s.json" % pid,
            "replay_cmd_template": "./check %s --replay {path}" % pid,
            "engine": "yarel-dsim",
            "level_claimed": {"category": c["level"], "text": c["text"], "design_ref": c["ref"]},
            "level_note": c["note"],
            "technique": c["technique"],
        })
    na = [{"property_id": k, "reason": v} for k, v in sorted(NA.items())]
    allp = [json.loads(l)["id"] for l in open(os.path.join(ROOT, "properties.jsonl"))]
    for pid in allp:
        if pid not in CHECKS and pid not in NA:
            na.append({"property_id": pid, "reason": "claimed in DESIGN.md; its check is not registered yet (under construction) - not claimed until it is"})
    na.sort(key=lambda e: e["property_id"])
    commits = subprocess.run(["git", "-C", "/repo", "log", "--format=%h %s", "--grep=^verif[ _]hooks"], stdout=subprocess.PIPE, text=True).stdout.strip().splitlines()
    doc = {
        "version": 1,
        "setup_cmd": "python3 -m sim.build checked release checked+hooks release+hooks release+debug_stress_gc release+safe_active_fiber+debug_stress_gc",
        "hooks": {
            "guard": "verif_hooks",
            "enable": "cargo feature `verif_hooks` of the yarel crate; the runner crate's feature `hooks` turns it on (runner built as <profile>+hooks). The printer / loader / embedding-API seams are public API and need no hook: every check also runs builds WITHOUT the feature (C10 only such builds); the +hooks builds add collection pacing, quarantine with the use-after-reclaim monitor and heap statistics.",
            "baseline_off_cmd": "cd /repo && cargo nextest run --workspace --no-fail-fast --offline || cargo test --workspace --no-fail-fast --offline",
            "source_commits": [c.split()[0] for c in commits],
            "add_only": True,
        },
        "engines": [{"name": "yarel-dsim", "path": "sim/ (Python simulator: PRNG, generators, reference models, orchestrator, minimiser) + runner/ (Rust scenario runner over yarel's public seams)",
                     "serves_properties": sorted(CHECKS), "kind_free_text": "deterministic simulation with fault injection; one seed = one repeatable execution; replay files are scenario JSON"}],
        "checks": checks,
        "not_applicable": na,
        "notes": "Exit codes: 0 held, 1 violation (VIOLATION line + replay file), 2 harness error. VERIF_SEED / VERIF_TIER honoured. known_findings.json lists open findings (KNOWN-FINDING lines, exit 0) and fixed ones (regression cases).",
    }
    with open(os.path.join(ROOT, "MANIFEST.json"), "w") as f:
        json.dump(doc, f, indent=1)
    print("MANIFEST.json: %d checks, %d not applicable" % (len(checks), len(na)))
main()
