#!/usr/bin/env python3
"""Merges seeded/MATRIX.part*.json (written by tools/final_matrix.sh) into seeded/MATRIX.json and prints the summary."""
import glob, json, os, subprocess
ROOT = os.path.dirname(os.path.dirname(os.path.abspath(__file__)))
rows = {}
for f in sorted(glob.glob(ROOT + "/seeded/MATRIX.part*.json")):
    rows.update(json.load(open(f)))
head = subprocess.run(["git", "-C", "/repo", "rev-parse", "--short", "HEAD"], stdout=subprocess.PIPE, text=True).stdout.strip()
doc = {"_about": "quick tier of each check against each seeded change on /repo %s; mode first-only: the check of the property the change breaks "
                 "runs first and the row stops at the first check that reports a violation (exit 1)" % head}
doc.update(rows)
json.dump(doc, open(ROOT + "/seeded/MATRIX.json", "w"), indent=1, sort_keys=True)
caught_own, caught_other, missed = [], [], []
for mid, row in sorted(rows.items()):
    meta = json.load(open("%s/seeded/%s/meta.json" % (ROOT, mid)))
    own = meta.get("property") or mid.split("-")[0]
    hit = [c for c, r in row.items() if r["exit"] == 1]
    if own in hit:
        caught_own.append(mid)
    elif hit:
        caught_other.append((mid, hit[0]))
    else:
        missed.append(mid)
equiv, documented, open_ = [], [], []
for mid in missed:
    meta = json.load(open("%s/seeded/%s/meta.json" % (ROOT, mid)))
    (equiv if meta.get("equivalent_since") else documented if meta.get("not_caught") else open_).append(mid)
noapply = sorted(d for d in os.listdir(ROOT + "/seeded") if d[0] == "C" and os.path.isdir(ROOT + "/seeded/" + d) and d not in rows)
print("changes: %d; caught by the check of their own property: %d; by another check only: %d %s; not caught: %d = no longer breaking since a later fix %s + out of the simulator's reach, documented %s + MISSED %s; no row (patch does not apply?): %s" % (
    len(rows), len(caught_own), len(caught_other), caught_other, len(missed), equiv, documented, open_, noapply))
