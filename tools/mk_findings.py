#!/usr/bin/env python3
"""Writes the pinned scenarios of the C08 known findings (findings/C08/*.json) and shows how each fails."""
import json, os, sys
sys.path.insert(0, os.path.dirname(os.path.dirname(os.path.abspath(__file__))))
from sim.props import c08
from sim.core import Ctx, Stats
from sim import build

def ir(main, funcs=(), whiles=(), wrap="fn"):
    return {"main": main, "funcs": [dict(how=h, body=b) for h, b in funcs], "sites": 9, "whiles": list(whiles), "wrap": wrap}

T = lambda n: ["throw", n, "s"]
FIXED = {
 "K-catch-pop": (ir([["try", [["try", [["chk", "s2"]], [["chk", "s4"]], None]], None, [["ev", 6]]]]), {"s2": {"1": "ValueError"}, "s4": {"1": "ValueError"}},
    "a caught inner exception removed the enclosing handler (catch block started with PopExcHandler): the outer finally block was skipped"),
 "K-stale-error-ip-a": (ir([["try", [T(3)], [["chk", "s2"]], None]]), {"s2": {"1": "op:12"}},
    "host panic in runtime_error(): instruction pointer saved by an earlier, handled `throw` applied to a frame of another function"),
 "K-stale-error-ip-b": (ir([["call", 0, 23]], [("fn", [["try", [["throw", 11, "n"]], None, [["chk", "s9"]]]])]), {"s9": {"1": "op:5"}},
    "host panic in runtime_error(): a failing built-in operation inside a finally block that runs because of a pending `throw`"),
}
FIXED["K-handler-offset-65536"] = (dict(ir([["call", 0, 16]], [("fn", [["try", [["pad", 32753], ["pad1"], ["chk", "s5"], ["throw", 13, "s"]], None, [["ev", 14]]]])]), edge=True), {},
    "a try block whose distance to its catch/finally block was exactly 65536 bytes got handler offsets encoded as 0 (size check `>` instead of `>=`): exceptions thrown in it were reported as unhandled and its finally block was skipped; now refused at compile time")
PINNED = {
 "K-ret-nofinally": (ir([["try", [["ret", 5]], [["evexc", 2]], None], ["ev", 9]]), {},
    "`return` inside a try block whose statement has no finally clause does not return: execution falls through to the code after the statement"),
 "K-ret-nested": (ir([["try", [["try", [["ret", 5]], None, [["ev", 1]]]], None, [["ev", 2]]], ["ev", 9]]), {},
    "`return` inside a try block nested in another try statement of the same function runs only the innermost finally block; the outer handler stays installed for a dead frame"),
 "K-ret-catch": (ir([["try", [T(3)], [["evexc", 2], ["ret", 5]], [["ev", 1]]], ["ev", 9]]), {},
    "`return` inside the catch block of a statement that has a finally clause skips the finally block"),
 "K-brk-try": (ir([["loop", "for", 2, [["try", [["brk"]], None, [["ev", 1]]]], None], ["ev", 9], T(4)]), {},
    "`break` that leaves a try block skips the finally block and leaves a stale handler that intercepts a later exception"),
 "K-cont-try": (ir([["loop", "for", 2, [["try", [["cont"]], [["evexc", 2]], [["ev", 1]]]], None], ["ev", 9], T(4)]), {},
    "`continue` that leaves a try block skips the finally block and leaves a stale handler that intercepts a later exception"),
 "K-finally-local": (ir([["try", [["try", [T(3)], None, [["local", 6, []]]]], [["evexc", 2]], None]]), {},
    "a variable declared inside a finally block reads the pending exception instead of its own value when the block was entered by an exception"),
 "K-throw-in-catch-finally": (ir([["try", [["try", [T(3)], [["evexc", 2], T(4)], [["ev", 1]]]], [["evexc", 5]], None]]), {},
    "an exception raised inside the catch block of a statement that has a finally clause skips that finally block"),
 "K-leave-catch-with-finally": (ir([["loop", "for", 2, [["try", [T(3)], [["evexc", 2], ["cont"]], [["ev", 1]]]], None], ["ev", 9]]), {},
    "`continue`/`break`/`return` leaving the catch block of a statement that has a finally clause skips the finally block"),
 "K-try-inside-pending-finally": (ir([["try", [["try", [T(3)], None, [["try", [T(4)], [["evexc", 2]], None]]]], [["evexc", 5]], None], ["ev", 9]]), {},
    "a try statement entered while a finally block runs with a pending exception (or pending return) destroys the pending state: here the inner catch swallows the outer exception"),
 "K-return-inside-return-finally": (ir([["try", [["ret", 2]], None, [["call", 0, 7]]], ["ev", 9]], [("fn", [["try", [["ret", 1]], None, [["ev", 1]]]])]), {},
    "a callee returning through its own finally block while the caller's finally block runs with a pending return cancels the caller's return"),
 "K-throw-in-return-finally": (ir([["try", [["call", 0, 7]], [["evexc", 2]], [["ev", 3]]], ["ev", 9]], [("fn", [["try", [["ret", 14]], None, [["failop", 1, 1]]]])]), {},
    "an exception that leaves a finally block entered by `return` leaves the pending return armed: the next finally block to end in the same fiber performs that return"),
}


OPEN_TITLES = {k: v[2] for k, v in PINNED.items()}
FIXED_COMMITS = {"K-catch-pop": "790993c", "K-stale-error-ip-a": "26bae81", "K-stale-error-ip-b": "26bae81", "K-handler-offset-65536": "70f8b24"}

# ---- other properties: (property, id, status, commit, title, scenario dict)
from sim.props import c09, c15, c12, c01, c16, c14
BMCYCLE = c01.OPS.index("bmcycle({u})")
OTHER = [
 ("C14", "K-import-at-frame-limit-reseeds-handler-module", "fixed", "f3dd6b3",
  "an import whose module body could not be called (call stack at its limit; the IndexError was caught) installed the built-ins into the module of the handler instead of the new module: a built-in name the main script had rebound was silently reset",
  {"ir": {"mods": [{"bind": "m0", "lazy": None, "path": "m0", "reads": [], "stmts": []}, {"bind": "m1", "lazy": None, "path": "m1", "reads": [], "stmts": []}],
          "shape": "dag", "sites": 0, "steps": 2}, "tape": [0, 0, 7, 9, 0, 0] + [0] * 30, "faults": {}}),
 ("C14", "K-modules-lack-core-library-classes", "fixed", "2941b02",
  "imported modules got the interpreter's built-in classes and the core library's Iter/MapIter/FilterIter, but not Error, its subclasses and StopIter: naming one of them in a module raised NameError",
  {"ir": {"mods": [{"bind": "m0", "lazy": None, "path": "m0", "reads": [], "stmts": []}, {"bind": "m1", "lazy": None, "path": "m1", "reads": [], "stmts": []}],
          "shape": "dag", "sites": 0, "steps": 12}, "tape": [0, 0, 0, 8, 0, 0] + [0] * 30, "faults": {}}),
 ("C01", "K-bound-native-reclaimed-during-its-call", "fixed", "c7ee09c",
  "call_value() kept the bound method borrowed while the callee ran: a bound built-in method reachable only through the callee's stack slot (returned by a function and called at once) was reclaimed by a collection during the call and the borrow guard's drop wrote into freed memory (dev builds: panic 'RefCell already mutably borrowed')",
  {"ir": {"gadgets": [["op", 37, 1000, "global"]], "reset": False}, "gc_tape": "ff" * 64, "gc_rate": 2}),
 ("C01", "K-bound-method-reclaimed-during-arity-error", "fixed", "c7ee09c",
  "same for a bound method called with the wrong number of arguments: raising the TypeError allocates while the bound method is still borrowed",
  {"ir": {"gadgets": [["failop", 14, 1000]], "reset": False}, "gc_tape": "ff" * 64, "gc_rate": 2}),
 ("C01", "K-instance-reclaimed-during-field-call", "fixed", "c7ee09c",
  "invoke() kept a temporary instance borrowed while the callable stored in one of its fields ran",
  {"ir": {"gadgets": [["op", 40, 1000, "global"]], "reset": False}, "gc_tape": "ff" * 64, "gc_rate": 2}),
 ("C01", "K-collector-recursion-through-bound-method-cycle", "fixed", "0e99acf",
  "ObjBoundMethod::blacken() marked its receiver grey again instead of blackening it: with a bound method kept where its receiver is reachable by a second path (v.push(v.push) plus another reference to v) the collector recursed until the native stack overflowed at the next collection (4-line script, stock release CLI)",
  {"ir": {"gadgets": [["op", BMCYCLE, 1000, "global"]], "reset": False, "hostheld": False, "hostmod": 0}, "gc_tape": "ff" * 64, "gc_rate": 2}),
 ("C01", "K-closure-does-not-keep-its-module", "fixed", "4cd8f38",
  "ObjClosure did not trace the module it was defined in (only the interpreter's module table did): a closure of an imported module that the host keeps rooted across Vm::reset() and hands back with set_global() ran with its module reclaimed",
  {"ir": {"gadgets": [], "reset": True, "hostheld": True, "hostmod": 0}, "gc_tape": "ff" * 64, "gc_rate": 2}),
 ("C01", "K-unwind-leaves-captured-variables-open", "fixed", "0143da8",
  "exception unwinding cut the stack back without closing open captured variables: a closure created in a try block (or callee) left by an exception pointed at a slot the collector no longer traced (use after reclaim) or that later pushes overwrote",
  {"ir": {"gadgets": [["chain", "capture_in_scope_left_by_exception", ["closed_capture"], "vec", 1050, 0]], "reset": False}, "gc_tape": "ff" * 64, "gc_rate": 2}),
 ("C01", "K-return-through-finally-leaves-captured-variables-open", "fixed", "32ee728",
  "a return leaving a try block through its finally block cut the stack back without closing the block's captured variables",
  {"ir": {"gadgets": [["chain", "capture_in_try_left_by_return", [], "vec", 1060, 2]], "reset": False}, "gc_tape": "ff" * 64, "gc_rate": 2}),
 ("C16", "K-finished-fiber-retains-closure", "fixed", "75f1d95",
  "a fiber that ran to completion kept its body closure, captured variables and call argument alive through its untouched value stack: a chain of fibers each holding its predecessor grew without bound although only two were reachable",
  {"ir": {"body": [["fiber_daisy_chain", None]], "n": 75, "sites": 0, "slots": [11], "spikes": []}, "faults": {}}),
 ("C15", "K-captured-variable-freed-after-failed-run", "fixed", "260f9f2",
  "a closure stored in a global over a heap-valued local of a run that then failed read a stack slot the collector no longer traced: use after free in a later snippet (SIGSEGV in checked builds)",
  {"ir": {"session": [["snip", [["capcrash", 1, "s1", 1]]], ["snip", [["callcap", 1, 2]]]], "sites": 1, "mod_sites": {}}, "faults": {"s1": {"1": "RuntimeError"}}, "force_gc_slice": True}),
 ("C15", "K-waiting-fibers-left-half-alive", "fixed", "5f57364",
  "after a run failed inside a fiber, the fibers waiting for it (its chain of callers) stayed neither finished nor callable for ever ('already been called')",
  {"ir": {"session": [["snip", [["set", 0, 1], ["fiber2", 0, "s1", 2]]], ["snip", [["poke", 3]]]], "sites": 1, "mod_sites": {}}, "faults": {"s1": {"1": "ValueError"}}}),
 ("C15", "K-reset-loses-core-globals", "fixed", "11a684a",
  "after Vm::reset() the globals defined by the core library (Error and its subclasses, StopIter, ...) were gone, so e.g. `.map()` iterators failed with `Undefined variable 'StopIter'`: a reset interpreter was distinguishable from a new one",
  {"ir": {"session": [["reset"], ["snip", [["corelib", 1]]]], "sites": 0, "mod_sites": {}}, "faults": {}}),
 ("C01", "K-upvalue-dropped-fiber", "fixed", "e281e02",
  "a closure over a variable living on the value stack of a suspended fiber kept only a raw pointer into that stack: once the fiber object was dropped and collected the closure read/wrote reclaimed memory",
  {"ir": {"gadgets": [["chain", "open_capture_on_dropped_fiber", [], "vec", 1000, 3]]}, "gc_tape": "ff" * 64, "gc_rate": 2}),
 ("C01", "K-superclass-untraced", "fixed", "ad98765",
  "the collector did not trace a class's superclass link: a class alive only as the declared superclass of a live class was reclaimed and Object.derives() walked freed memory",
  {"ir": {"gadgets": [["op", 18, 1000, "global"]]}, "gc_tape": "ff" * 64, "gc_rate": 2}),
 ("C12", "K-map-keys-untraced", "fixed", "9f27374",
  "the collector did not trace HashMap keys: a tuple (or range) alive only as a map key was reclaimed while the map still held it",
  {"ir": {"nmaps": 1, "ops": [["insert", 0, "t_a1", ["vn", 1]], ["churn", 2], ["keys", 0], ["get", 0, "t_a1_c"]]}, "gc_tape": "ff" * 64}),
 ("C12", "K-negative-zero-hash", "fixed", "158fd42",
  "0 and -0 are == but hashed differently, so they denoted two different map entries",
  {"ir": {"nmaps": 1, "ops": [["lit", 0, [["negzero", ["vn", 5]]]], ["get", 0, "zero"], ["insert", 0, "zero", ["vn", 6]], ["len", 0]]}, "gc_tape": ""}),
 ("C09", "K-yield-resumed-without-argument", "fixed", "0c8452d",
  "a `Fiber.yield(...)` expression resumed by `call()` without an argument evaluated to <class Fiber> instead of nil",
  {"ir": {"fibers": [{"param": 0, "kind": "gen", "body": [["yield", True], ["ev", 1]]}, {"param": 0, "kind": "gen", "body": [["mix"]]}],
          "steps": 2, "wrap": False, "sites": 0, "hmod": False}, "tape": [0, 0, 0, 0, 0, 0, 0, 0], "faults": {}}),
 ("C15", "K-module-count-assertion", "fixed", "e99c58a",
  "debug assertion `modules.len() == 1` in run(): on a reused interpreter every snippet after one that imported a module panicked (checked builds)",
  {"ir": {"session": [["snip", [["import", 0]]], ["snip", [["probe", 1]]]], "sites": 1, "mod_sites": {"0": "s1"}}, "faults": {}}),
 ("C15", "K-exception-in-flight-residue", "fixed", "fa214db",
  "the VM-wide exception-in-flight flag survived a run that ended with an uncaught exception; the next snippet's try/finally then rethrew a bogus value",
  {"ir": {"session": [["snip", [["tryfin", 1, "s1"]]], ["snip", [["tryfin", 2, "s2"]]]], "sites": 2, "mod_sites": {}}, "faults": {"s1": {"1": "ValueError"}}}),
 ("C15", "K-range-eviction-depends-on-when-the-clock-is-read", "fixed", "d2598ac",
  "the range cache chose the entry to evict by comparing elapsed() of two entries - two clock readings taken at different moments; a delay between them longer than the stamps are apart made the newest entry look oldest, so a range cached a moment ago (right after a reset with a full cache) stopped being == to an equal literal. Timing-dependent: seen once in ~60 quick runs under load (seed 3, release build), not reproducible by replay; the pinned session is the one it happened in",
  {"ir": {"session": [["snip", [["manyranges", 11]]], ["reset"], ["snip", [["setrange", 1], ["cmprange", 1, 12], ["cmprange", 1, 13]]]], "sites": 0, "mod_sites": {}}, "faults": {}}),
 ("C15", "K-reset-keeps-the-range-cache", "fixed", "e57bab6",
  "Vm::reset() kept the range cache: a range the old program had cached first stayed the cache's oldest entry, was found (not re-stamped) when the new program built an equal range, and was evicted by the very next new range - `var r = 2..6; var t = 900..904; r == 2..6` is false after such a reset and true on a new interpreter",
  {"ir": {"session": [["snip", [["setrange", 1], ["sevenranges", 1]]], ["reset"], ["snip", [["setrange", 1], ["cmprange", 1, 3]]]], "sites": 0, "mod_sites": {}}, "faults": {}}),
 ("C16", "K-closed-captured-variable-keeps-its-list-link", "fixed", "9706ac1",
  "a captured variable that was closed kept its link into the fiber's list of open captured variables, and the collector follows that link in every state: a closure that stays alive kept the variables that were open below its own when it closed - and later their values - alive although nothing can reach them (a fiber held only by a dropped closure stayed alive as long as a sibling closure lived)",
  {"ir": {"body": [], "n": 63, "nat": [], "sites": 2, "slots": [9], "spikes": [], "strand": True}, "faults": {}, "second_vm": False, "reset_rounds": False}),
 ("C01", "K-collector-recurses-on-the-native-stack", "open", None,
  "marking and blackening recurse on the native stack, one level per link: with a 400 000-deep chain of live objects (`l = [l]` in a loop) a collection overflows an 8 MiB stack and the process aborts, while the same program completes when no collection happens (the stock release CLI aborts at about 200 000 links)",
  {"case": "nat", "nseed": 0, "gc_tape": "", "force_collection_at_marker": True, "stack_mib": 8, "source": "var l = nil; var i = 0;\nwhile i < 400000 { l = [l]; i = i + 1; }\n/*GC*/\nprint((\"ev\", \"depth\", i));\nvar n = 0; while l != nil { l = l[0]; n = n + 1; }\nprint((\"ev\", \"walk\", n));\n"}),
]


def main():
    build.ensure(["checked", "release", "checked+hooks"])
    ctx = Ctx("quick")
    entries = []
    outdir = os.path.join(build.ROOT, "findings", "C08")
    os.makedirs(outdir, exist_ok=True)
    for name, (tree, faults, title) in list(PINNED.items()) + list(FIXED.items()):
        sc = c08.build_scenario(tree, [0] * 16, faults, {"ignore_taint": True, "finding": name, "title": title})
        res = c08.PROP.check_one(sc, ctx, Stats())
        v = res.get("violation")
        print("C08 %-32s %s" % (name, (v["class"] + ": " + v["msg"][:110]) if v else "passes on this tree"))
        with open(os.path.join(outdir, name + ".json"), "w") as f:
            json.dump(sc, f, indent=1, sort_keys=True)
        if name in PINNED:
            entries.append({"id": name, "property": "C08", "status": "open", "title": title, "scenario": "findings/C08/%s.json" % name,
                            "record": "KNOWN-FINDING: property=C08 %s: %s" % (name, title)})
        else:
            entries.append({"id": name, "property": "C08", "status": "fixed", "commit": FIXED_COMMITS[name], "title": title,
                            "scenario": "findings/C08/%s.json" % name, "record": "fixed: property=C08 %s %s" % (FIXED_COMMITS[name], title)})
    props = {"C09": c09.PROP, "C15": c15.PROP, "C12": c12.PROP, "C01": c01.PROP, "C16": c16.PROP, "C14": c14.PROP}
    for pid, name, status, commit, title, sc in OTHER:
        d = os.path.join(build.ROOT, "findings", pid)
        os.makedirs(d, exist_ok=True)
        sc = dict(sc, finding=name, title=title, ignore_taint=True)
        res = props[pid].check_one(sc, ctx, Stats()) if pid == "C15" else props[pid].check(sc, ctx)
        v = res.get("violation")
        print("%s %-32s %s" % (pid, name, (v["class"] + ": " + v["msg"][:110]) if v else "passes on this tree"))
        with open(os.path.join(d, name + ".json"), "w") as f:
            json.dump(sc, f, indent=1, sort_keys=True)
        e = {"id": name, "property": pid, "status": status, "title": title, "scenario": "findings/%s/%s.json" % (pid, name)}
        if status == "fixed":
            e["commit"] = commit
            e["record"] = "fixed: property=%s %s %s" % (pid, commit, title)
        else:
            e["record"] = "KNOWN-FINDING: property=%s %s: %s" % (pid, name, title)
        entries.append(e)
    ctx.close()
    doc = {"comment": "Committed list of known findings. Never written at run time (regenerate with tools/mk_findings.py). 'open': the pinned scenario still fails in the listed way -> the check prints the KNOWN-FINDING line and exits 0; the generators never produce scenarios in an open entry's region (static predicate) or execute-but-do-not-compare them (dynamic taint, counted). 'fixed' entries suppress nothing: their pinned scenario is an ordinary regression case and fails the check if it ever fails again.",
           "findings": entries}
    with open(os.path.join(build.ROOT, "known_findings.json"), "w") as f:
        json.dump(doc, f, indent=1)
main()
